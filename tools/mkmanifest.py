#!/usr/bin/env python3
"""Regenerates /verif/MANIFEST.json from the table below (single source of truth).

usage: tools/mkmanifest.py            # writes MANIFEST.json next to this tree's root
"""
import json, os, subprocess, sys

ROOT = os.path.dirname(os.path.dirname(os.path.abspath(__file__)))

# id -> (level category, technique, level text, level note, design ref)
CLAIMED = {
    "C01": ("exploration",
            "differential runtime monitor: real fork VM vs go-ethereum v1.12.0 on generated programs, outcome oracle",
            "Every generated case (mutually calling gadget programs, 6 entry points, forks Frontier..Shanghai, extra-EIP sets) is executed by the real fork in 4 configurations (debug tracer on/off x join points on/off, nothing bound) and by go-ethereum v1.12.0 in the same process; return data, error class, leftover gas, logs, refund, self-destructs and state root must agree. Sampled executions with a trusted reference: held on K monitored executions, not a proof.",
            "Trusts go-ethereum v1.12.0 (module cache) as reference and core/state as the state oracle; in-domain executions only (no 0xe0-0xe7 / 0x5c-0x5e bytes executed, no 0x64-0x66 touched); cumulative fork configs.",
            "DESIGN.md §3 C01"),
    "C02": ("exploration",
            "differential step-stream monitor (pc, op, gas, cost, depth per callback) + gas-arithmetic monitor, swept over gas limits c-1/c/c+1",
            "Debug-tracer callback streams of the fork and go-ethereum v1.12.0 are compared step by step on gas-relevant fields; the fork's own stream is checked for gas[i+1]=gas[i]-cost[i](+returned); each program is re-run on both VMs at limits one below / on / one above the cumulative consumption at (thinned) outer-frame steps; SSTORE (orig,cur,new) cube and call-gas/stipend corners on every fork. Directed kinds: orders of self-destructs within one transaction (repeated, destroyed beneficiaries), call-gas operands beyond 64 bits, gas allowances up to 2^64-1 with join points off and on with nothing bound.",
            "Reference trusted; limits sampled around intermediate gas values of the outer frame (thinned to a cap), not all 2^64 limits.",
            "DESIGN.md §3 C02"),
    "C04": ("fault_enumeration",
            "fault injection at every join-point firing position + online frame-snapshot monitor + offline effect-log replay over the StateDB proxy log",
            "Generated call trees (all call kinds, creates, value transfers, storage writes/logs before/inside/after calls, failing terminators) run on the real VM with real WASM Aspects bound; for each scenario a provider failure is injected at every join-point firing position in turn x 4 error kinds, plus trapping / gas-exhausting Aspects. Oracles: state at a failed frame's exit == copy taken at its entry snapshot; final state == pre-state + replay of exactly the mutations of frames that succeeded with all ancestors; the caller's next instruction sees flag 0. Also: value sent to failing and succeeding precompiles (nested and as the transaction target, every fork), and the rule that a frame reporting no error must have ended on STOP/RETURN/SELFDESTRUCT (an exceptional halt passed off as success).",
            "Trusts go-ethereum core/state (Copy, snapshots) as the state oracle; one injected fault per run; forks Byzantium..Shanghai.",
            "DESIGN.md §3 C04"),
    "C18": ("exploration",
            "differential callback-stream monitor (every argument of every debug-tracer callback) + byte-wise output comparison of 20 paired tracer configurations + Start/End, Enter/Exit balance automaton under injected join-point failures",
            "The fork and go-ethereum v1.12.0 run the same generated in-domain program with full recorders; the callback sequences are compared argument by argument (pc, op, gas, cost, depth, stack, memory, return data, error class, from/to/input/gas/value, output/gasUsed). Each inherited tracer (struct x4, JSON x2, access-list, call x4, flatCall x4, prestate x2, 4byte, mux, noop) is attached on the fork and its upstream original on the reference, outputs compared byte-wise. Aspect-bound call trees with a failure injected at every firing position must keep Start/End and Enter/Exit balanced. The access-list tracer is also constructed with a supplied list (sender, recipient, precompile, coinbase, duplicates).",
            "go-ethereum v1.12.0 tracers are the trusted originals; paired-tracer comparison uses Call/Create entry points (how a chain attaches tracers); access-list output compared as a sorted list (map order on both sides).",
            "DESIGN.md §3 C18"),
    "C11": ("exploration",
            "history monitor against an executable reference model: the exported Tracer API and a map-based model are driven with the same operation history and compared after every operation (queries + complete hook dump)",
            "All histories up to length 4 (quick) / 5 (thorough) over a 19-operation alphabet are enumerated (exhaustive for that alphabet and bound) and random layout-consistent histories of length <= 40 over generated nested layouts are added; after every operation the return value, every query (Variable, FindKeyIndices, Slot, IndicesOfChanges, children, Balance, node type, cursor) and the complete dump (name path and flat index must reach the same node) are compared with the model; refused operations must leave the dump unchanged.",
            "The reference model (models/keyreg) is the trusted specification; histories are layout consistent (conflicting registrations are undefined by the statement and not generated).",
            "DESIGN.md §3 C11"),
    "C19": ("exploration",
            "history monitor: generated well-nested event streams fed directly to callTracer/flatCallTracer (8 configs); GetResult checked against the tree rebuilt from the same stream",
            "An exhaustive skeleton family (0-2 Aspects per join point, 0-2 calls inside an Aspect, 0-2 body calls, nested join points) plus random deeper streams are fed through the tracers' EVMLogger+AspectLogger methods; no panic, every frame and Aspect execution exactly once under its issuer with its own gasUsed/output/error; flat: unique prefix-closed trace addresses, children numbered 0..k-1, subtraces = emitted children. Transaction-level join points (Aspects before the top-level frame is announced and after it ended, with calls of their own) are part of the generated streams.",
            "The expected tree comes from models/calltrace applied to the same stream; documented design filters (precompile pruning, onlyTopCall) are modelled.",
            "DESIGN.md §3 C19"),
    "C09": ("exploration",
            "reference-model monitor: recorded journal bytes vs an independent Solidity-layout decoder applied to the same storage (offline for single-instruction programs, online at the journal step for overwrite/journal sequences)",
            "The complete (offset,width) grid [0,33]x[0,33] plus boundary values up to 2^256-1 over 6 storage words, strings of every length 0..100 and 127/128/255/256/1000/4096 in 5 content classes at 9 slot positions, all invalid length encodings, and random SSTORE/journal sequences are executed on the real VM; recorded bytes (by name and by slot) must equal the decoder's; operands outside the decoder's domain must fail the frame and record nothing. Slots whose data area crosses a byte carry (keccak ending in ff/fe/fd/ffff/00) are included.",
            "models/sollayout is the trusted decoder; width 0 only asserted not to crash; string lengths above 4096 left to C20.",
            "DESIGN.md §3 C09"),
    "C07": ("exploration",
            "invariant monitor at quiescent points: structural walk of the public CallTree API + complete hook dump after every top-level return, cross-checked with a shadow attempt log built from the debug-tracer stream",
            "After every top-level return (including follow-up invocations on one EVM and runs with a failure injected at every join-point firing, self-recursion to the depth limit, refused calls/creates) indices must be dense 0..n-1 in order of entry, every non-top node has exactly one smaller-index parent listing it once in increasing order, lookups return the node carrying the index, the four accessor pairs agree with the links, nothing is left open, and n and every parent equal the shadow log's. The host context is cancelled before / during some runs and the host uses the recorder bookkeeping API between transactions.",
            "Shadow log derived from Step/Enter/Exit events only; the hook dump (build tag verif) enumerates the lookup table.",
            "DESIGN.md §3 C07"),
    "C08": ("exploration",
            "offline log checker: VM call tree vs an independent attempt log (operands and memory copied at each CALL/CREATE/CREATE2 step, outcome from Exit events, gas handed back derived from the caller's next step), compared at the end of the transaction",
            "Every node's From/To/Value/supplied gas/calldata or init code/parent and Ret/Err class/RemainingGas are compared with the shadow attempt log after the program has had every chance to overwrite its memory; refused attempts must have a node carrying a refusal error; workloads overlap argument and return areas, overwrite arguments after the call and grow memory. Each node must list exactly the attempts its frame issued, in program order.",
            "Shadow log from the debug-tracer stream; calldata compared when the step's memory (<= 64 KiB) was copied; refused CALLs: supplied gas := gas handed back.",
            "DESIGN.md §3 C08"),
    "C10": ("exploration",
            "online shadow tracer driven by debug-tracer events (storage address, shadow call index, independently decoded value at each journal step) compared with the complete tracer dump",
            "Call trees mixing all call kinds, creates and re-entrancy, every frame registering and journaling shared variables through all eight journal opcodes with repeating values, frames failing after journaling, run plain / with real Aspects / with an injected join-point failure on Frontier..Cancun; every key the tracer holds must equal the shadow's per-(account, variable, call index) chronological lists with immediate repeats collapsed; anything the shadow did not produce is reported.",
            "Shadow call index from the shadow attempt log (C08); decoder from C09; the hook dump enumerates every key.",
            "DESIGN.md §3 C10"),
    "C13": ("exploration",
            "boundary monitor: the harness-supplied Transfer function observes real balances before/after each transfer; offline comparison with the complete dump of account balance journals",
            "For every transfer performed by the VM (C10's call trees: zero-value, self-transfers, new and code-less recipients, create endowments, frames that later revert, injected join-point failures) the expected entries per (account, shadow call index) are rebuilt from the observed balances and compared as integers with the complete dump and Balance(); entries without an observed transfer are reported. Kind targets sends value to the zero address, precompiles, itself, coinbase, sender, origin, empty and missing accounts, from different senders incl. the zero address.",
            "core.Transfer / StateDB balances are ground truth; call index from the shadow attempt log.",
            "DESIGN.md §3 C13"),
    "C05": ("fault_enumeration",
            "online/offline trace-specification checker: parenthesis automaton over provider firings, Aspect enter/exit, Enter/Exit and Step events with fault injection at every firing position; payloads read from the protobuf request given to real WASM Aspects",
            "Generated call trees run unbound / disabled / with 0-3 real Aspects per join point / with a provider failure injected at every firing position x error kinds / with trapping and gas-exhausting Aspects / with the enable flag toggled between calls and from inside a re-entrant provider callback / with callees that end with exactly 0, 1, 2 gas left. Every CALL frame whose target has code gets exactly one pre firing before its first instruction and one post firing after its last and after all nested calls; nothing fires elsewhere or after a failed pre; each Aspect's request carries that call's caller, callee, calldata, value, gas, call-tree index and (post) the callee's own return data and error. Also: gas allowances up to 2^64-1, and contract code planted at every precompile address with Aspects bound to it (no join point where the fork makes the address a precompile).",
            "Payload checks need an Aspect bound; call index from the shadow attempt log; code size and enable flag read at frame entry.",
            "DESIGN.md §3 C05"),
    "C06": ("fault_enumeration",
            "conservation checker over Step/Enter/Exit/AspectEnter/AspectExit events with real gas-metered WASM Aspects and injected join-point failures",
            "Per frame: Aspect i is given what Aspect i-1 left; callee's first instruction sees entry gas minus pre burns; gas handed back (derived from the caller's next instruction) equals callee end gas minus post burns; no frame hands back more than given; an out-of-gas join point surfaces as the identical vm.ErrOutOfGas with nothing handed back; other non-revert post failures hand back nothing. Every frame (join points or not) is also checked for: handed-back gas <= given, call-tree remaining gas == gas handed back, and a frame no join point surrounds hands back exactly what its code left; callees halting on an undefined instruction or stack error have a known leftover, so what the post join point is offered is checked there too.",
            "Burn = gas reported at AspectEnter minus gas in the result at AspectExit; callee end gas rebuilt for frames ending in STOP/RETURN/REVERT.",
            "DESIGN.md §3 C06"),
    "C12": ("exploration",
            "pairwise differential on the fork itself (journal instruction + padding vs pops of equal length) with aligned-step comparison and fee accounting; malformed-operand halts checked per fork",
            "For generated call trees containing all eight journal opcodes with well-formed operands in static and non-static frames on Frontier..Cancun: result, logs, post-state and every aligned step (pc, op, depth, full stack, memory, return data) equal the pops program's; each journal step costs one non-zero constant (cross-case: one value over all forks); leftover difference equals the predicted sum; every journal opcode behaves like its pops at stack heights up to 1024. Malformed operand sets (incl. name/key pointers and lengths outside the frame's memory) halt the frame with all gas gone, effects reverted, caller sees 0. Exact-gas runs: programs re-run with exactly the gas they consume plus small slacks must finish identically (the fee is all a journal instruction needs).",
            "Programs are gas/code-insensitive by construction; well-formedness per the C09/C11 models.",
            "DESIGN.md §3 C12"),
    "C14": ("exploration",
            "boundary monitor with recording host callbacks + strict reference decoders (big-integer ABI (bytes,bytes) decoder, address+key, 32-byte hash) over generated hostile payloads for all four call kinds and caller depths",
            "A contract at depth 1-3 calls 0x64/0x65/0x66 by CALL/CALLCODE/DELEGATECALL/STATICCALL on Istanbul..Cancun with payloads of length 0..400, canonical encodings with head/length words replaced by boundary values up to 2^256-1, truncations and random bytes; several contracts writing through 0x66 in one EVM instance; one EVM moved across the Berlin block with SetBlockContext; the host callbacks record exactly what they receive. Well-formed: exactly one callback with exactly the decoded arguments, return data = host answer, fee 5000, write attributed to the calling contract (other call kinds may refuse); malformed: no callback, failure, all gas consumed; host error propagates; pre-Berlin: no callback; never a panic. Kind proxy: chains that run library code by DELEGATECALL/CALLCODE before the CALL to 0x66 (the borrowing contract owns the write); Prague-configured chains included.",
            "Non-canonical in-bounds encodings may be accepted or rejected; five deliberate lenient-success behaviours for truncated payloads are recorded as known findings.",
            "DESIGN.md §3 C14"),
    "C15": ("exploration",
            "online specification monitors over the step stream (shadow transient store journalled per frame; memmove/MSIZE/gas model for MCOPY) + differential against go-ethereum v1.12.0 with EIP-1153 at its own opcode bytes",
            "Generated Cancun programs mixing TLOAD/TSTORE/MCOPY with all call kinds, reverts, re-entrancy and two transactions per state; call trees with static frames nested in static frames; a (dst,src,len) boundary grid incl. overlaps, zero length with huge offsets and out-of-range operands. Every TLOAD result is predicted by the shadow store (per address, restored on frame failure, empty per transaction); TSTORE in static context must fail with write protection; both cost 100; after each MCOPY memory = overlap-safe memmove on zero-extended memory, MSIZE and gas per EIP-5656; pre-Cancun the three bytes are invalid instructions; transient-storage programs agree with upstream Shanghai+EIP-1153.",
            "EIP texts as published; upstream's EIP-1153 as differential reference; MCOPY content check needs the step's memory copy.",
            "DESIGN.md §3 C15"),
    "C16": ("exploration",
            "repeated-execution monitor: byte comparison of canonical serialisations (every list-valued query in returned order) across K in-process repetitions, A-alone vs A-interleaved-with-B isolation runs, constants canary",
            "The same transaction runs K=30 (quick) / 200 (thorough) times on equal pre-state in fresh EVMs in one process; return data, gas, error, state root, logs, full call tree, balance journals, every Children/ChildrenIndices/IndicesOfChanges/ChildrenOf result in returned order and the complete hook dump must be byte-identical. An unrelated execution B (other EVM/state, possibly other extra EIPs on the same fork) run to completion in the middle of A's execution and afterwards must not change A's or B's answers; shared 256-bit constants are compared with their initial values after every case. Hygiene programs (callees that underflow, fill the stack to 1024, read unwritten memory, around a callee leaving a deep stack and large memory) and a precompile-set isolation pair (B built on another fork in the middle of A) are included; the journal-heavy programs place several keys of different types at one location (struct and first members) and the serialisation includes the by-slot query under an unregistered type id.",
            "Map-order dependence is sampled statistically (Go re-randomises per range statement); interleaving is at step granularity in one goroutine (true concurrency is C17).",
            "DESIGN.md §3 C16"),
    "C03": ("exploration",
            "hostile-input runtime monitoring in address-space-capped, journaling worker processes: panic/fatal-error detection at the entry-point boundary + post-condition assertions on hooked state (cursor, depth, static flag, follow-up Start) + read-cap sentinel",
            "Random byte strings as code (biased to journal opcodes, Artela precompile calls, boundary pushes) x calldata x forks Frontier..Cancun x six entry points; for each journal opcode every operand position swept over boundary values 0..2^256-1 and memory-length-relative values, plus random combinations, under hostile memory and storage shapes (invalid encodings, lengths 2^12..2^64-1); every call kind to 0x64-0x66 from depth 1 and 3 with truncated/overflowing payloads; byte-mutated journal programs; Aspect-bound call trees with a failure injected at a join-point firing. No panic may escape, no worker may die, bookkeeping must be closed and a follow-up call announced as a depth-0 Start. Kind stdops sweeps every operand of every standard instruction that takes memory offsets/lengths over boundary values on four forks.",
            "Initialised host as an embedding chain provides; a crash needing one specific 256-bit value outside the boundary sets and random draws is not found; one unbounded-loop finding is recorded as known.",
            "DESIGN.md §3 C03"),
    "C20": ("exploration",
            "work-counter monitor at the host boundary: state reads (StateDB proxy) and allocated bytes (runtime TotalAlloc, sampled outside the recorder's own copies) per instruction against gas-proportional bounds, with a read-cap sentinel",
            "Between consecutive instruction callbacks: state reads <= 16 + gas/20 and allocation <= 64 KiB + 64*gas + 4*memory, over C03's hostile generators (length fields 2^12..2^256-1 presented to journal instructions and Artela precompiles), single-instruction programs for every length-taking standard opcode with lengths 2^10..2^64 on 4 forks, standard precompiles with hostile length fields (modexp length triples up to 2^26, blake2f rounds), and the standard gadget workload as the no-false-alarm control. Also: jump-loop code of 4 KiB..1 MB as hash-less init code and as deployed code (one code analysis per frame allowed, summed jump allocation bounded) and BLOCKHASH served by core.GetHashFn over a counted header chain (at most 256 header reads per instruction).",
            "Hashing/copying work is observed through allocation and state reads; intervals in which the event log itself grows are not measured; the reference-journal length amplification is recorded as known findings.",
            "DESIGN.md §3 C20"),
    "C17": ("exploration",
            "Go race detector (-race build, checkptr) over barrier-started concurrent EVM instances with sequential-vs-concurrent result comparison; Cancel landing points swept on the VM's own step counter",
            "N in {2..32} goroutines with their own EVM and state execute journal-heavy programs, Aspect-bound call trees and standard programs on one fork with and without extra EIPs; every result must equal the sequential run and every race report touching artela-evm is a violation (external reports are counted). Looping contracts are cancelled from another goroutine at step k (swept, incl. before start / after end / twice): no panic, bookkeeping closed, and a jump executed after Cancel() returned must end its frame. Groups on one fork share ONE block context and chain configuration between the concurrent instances (checked unmodified afterwards); every third member is configured like a gas-less call.",
            "Schedules are sampled, not enumerated; the detector sees executed accesses only; promptness judged in logical steps; a hang = watchdog = inconclusive.",
            "DESIGN.md §3 C17"),
}

# Properties not (yet) claimed. Reason must be current.
NOT_APPLICABLE = {
}

PENDING_REASON = "check under construction in this round: monitor not yet validated silent on the unchanged tree, so the property is not claimed yet (runtime monitoring does apply; see DESIGN.md §3)"

ALL = ["C%02d" % i for i in range(1, 21)]


def main():
    hooks_commits = []
    try:
        out = subprocess.check_output(["git", "-C", "/repo", "log", "--format=%H %s"], text=True)
        for line in out.splitlines():
            h, _, s = line.partition(" ")
            if s.startswith("verif:"):
                hooks_commits.append(h)
    except Exception:
        pass
    checks = []
    for pid in ALL:
        if pid not in CLAIMED:
            continue
        cat, tech, text, note, ref = CLAIMED[pid]
        checks.append({
            "property_id": pid,
            "quick_cmd": "./check %s quick" % pid,
            "thorough_cmd": "./check %s thorough" % pid,
            "evidence_file": "/verif/evidence/%s.json" % pid,
            "replay_cmd_template": "./check --replay {path}",
            "engine": "vcheck",
            "level_claimed": {"category": cat, "text": text, "design_ref": ref},
            "level_note": note,
            "technique": tech,
        })
    na = []
    for pid in ALL:
        if pid in CLAIMED:
            continue
        na.append({"property_id": pid, "reason": NOT_APPLICABLE.get(pid, PENDING_REASON)})
    m = {
        "version": 1,
        "setup_cmd": "./setup.sh",
        "hooks": {
            "guard": "verif",
            "enable": "go build -tags verif (the ./check wrapper rebuilds cmd/vcheck against /repo's working tree with -tags verif; -race in addition for C17)",
            "baseline_off_cmd": "cd /repo && GOFLAGS=-mod=mod GOPROXY=off GOSUMDB=off GOTOOLCHAIN=local go test -json -vet=off -count=1 -timeout 25m ./...",
            "source_commits": hooks_commits,
            "add_only": True,
        },
        "engines": [{
            "name": "vcheck",
            "path": "/verif/cmd/vcheck",
            "serves_properties": [c["property_id"] for c in checks],
            "kind_free_text": "runtime-monitoring driver: deterministic case lists from VERIF_SEED, one worker process per batch running the real artela-evm (and go-ethereum v1.12.0 as reference) under recorders at the host boundary; per-property oracles over the recorded event logs; race detector build for C17",
        }],
        "checks": checks,
        "not_applicable": na,
        "notes": "All checks rebuild from /repo's working tree (go.mod replace => /repo). Exit 0 held / 1 VIOLATION / 2 INCONCLUSIVE (watchdog or coverage floor) / 3 build failure. known_findings.txt lists recorded genuine defects (KNOWN-FINDING lines) and fixed ones.",
    }
    with open(os.path.join(ROOT, "MANIFEST.json"), "w") as f:
        json.dump(m, f, indent=1)
        f.write("\n")
    print("wrote MANIFEST.json: %d checks, %d not claimed" % (len(checks), len(na)))


if __name__ == "__main__":
    main()
