#!/bin/sh
# usage: confirm_seed.sh <deliverable-dir> <name> [base-commit]
# Confirms a seeded change independently in a scratch worktree outside /repo and /verif:
#   demo passes without the patch, patch applies + builds, demo fails with it, pass list unchanged.
# Prints one JSON line; scratch worktree is removed afterwards.
SRC="$1"; NAME="$2"; BASE="${3:-6fa58d5}"; DD="${DEMO_DIR:-vm}"
export GOFLAGS=-mod=mod GOPROXY=off GOSUMDB=off GOTOOLCHAIN=local
WT=/tmp/confirm/$NAME
mkdir -p /tmp/confirm
git -C /repo worktree remove --force "$WT" >/dev/null 2>&1
git -C /repo worktree add -q --detach "$WT" "$BASE" || { echo "{\"name\":\"$NAME\",\"error\":\"worktree\"}"; exit 2; }
cd "$WT" || exit 2
putdemo() {
  for f in "$SRC"/*_test.go; do
    b=$(basename "$f"); [ "$b" = zz_wasm_test.go ] && b=zz_aspectwasm_test.go
    cp "$f" $DD/"$b"
  done
  if grep -q "demoEVM\|demoInitHost" vm/zz_seeded*_test.go 2>/dev/null && [ ! -f vm/zz_demo_test.go ]; then cp /tmp/wt/template/zz_demo_test.go vm/; fi
  if grep -q "BuildAspect" vm/zz_seeded*_test.go 2>/dev/null && [ ! -f vm/zz_aspectwasm_test.go ]; then cp /tmp/wt/template/zz_aspectwasm_test.go vm/; fi
}
rmdemo() { rm -f $DD/zz_*_test.go; }
putdemo
go test -vet=off -count=1 -run Seeded ./$DD/ > /tmp/confirm/$NAME.without.log 2>&1; WITHOUT=$?
rmdemo
git apply "$SRC/patch.diff" > /tmp/confirm/$NAME.apply.log 2>&1; APPLY=$?
(go build ./... && go test -vet=off -count=1 -run '^$' ./... ) > /tmp/confirm/$NAME.build.log 2>&1; BUILD=$?
(go build -tags verif ./... ) >> /tmp/confirm/$NAME.build.log 2>&1; BUILDV=$?
putdemo
go test -vet=off -count=1 -run Seeded ./$DD/ > /tmp/confirm/$NAME.with.log 2>&1; WITH=$?
rmdemo
/tmp/wt/template/passlist.sh "$WT" > /tmp/confirm/$NAME.pass.txt 2>/dev/null
if diff -q /tmp/confirm/$NAME.pass.txt /tmp/wt/baseline_pass.txt >/dev/null; then PASS=same; else PASS=differs; fi
NFAIL=$(grep -c '^--- FAIL' /tmp/confirm/$NAME.with.log)
echo "{\"name\":\"$NAME\",\"base\":\"$BASE\",\"demo_without_exit\":$WITHOUT,\"apply_exit\":$APPLY,\"build_exit\":$BUILD,\"build_verif_exit\":$BUILDV,\"demo_with_exit\":$WITH,\"demo_with_failed_tests\":$NFAIL,\"passlist\":\"$PASS\"}"
cd /; git -C /repo worktree remove --force "$WT" >/dev/null 2>&1
