#!/bin/sh
# usage: tools/sweep.sh [-t tier] <seed> [seed ...]   — runs every claimed check at each seed, one summary line per run
TIER=quick
if [ "$1" = "-t" ]; then TIER="$2"; shift 2; fi
cd "$(dirname "$0")/.." || exit 2
mkdir -p work
IDS=${ONLY:-$(python3 -c "import json;print(' '.join(c['property_id'] for c in json.load(open('MANIFEST.json'))['checks']))")}
for S in "$@"; do
  for P in $IDS; do
    START=$(date +%s)
    VERIF_SEED=$S ./check "$P" "$TIER" > "work/sweep_${P}_${S}.log" 2>&1
    RC=$?
    END=$(date +%s)
    echo "SWEEP seed=$S $P tier=$TIER exit=$RC secs=$((END-START)) violations=$(grep -c '^VIOLATION' work/sweep_${P}_${S}.log) known=$(grep -c '^KNOWN-FINDING' work/sweep_${P}_${S}.log) $(grep '^INCONCLUSIVE' work/sweep_${P}_${S}.log | head -2 | tr '\n' ' ')"
    grep -A1 '^VIOLATION' "work/sweep_${P}_${S}.log" | grep 'key=' | cut -c1-300
  done
done
