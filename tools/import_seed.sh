#!/bin/sh
# usage: import_seed.sh <deliverable-dir> <name> <round> [base-commit]
# Confirms a delivered seeded change with confirm_seed.sh and, when the confirmation holds
# (demo passes without, patch applies and builds with and without the verif tag, demo fails
# with it, pass list unchanged), stores it as /verif/seeded/<name>/.
SRC="$1"; NAME="$2"; ROUND="$3"; BASE="${4:-$(git -C /repo rev-parse --short HEAD)}"
HERE=$(cd "$(dirname "$0")/.." && pwd)
OUT=$("$HERE/tools/confirm_seed.sh" "$SRC" "$NAME" "$BASE")
echo "$OUT"
echo "$OUT" | python3 -c '
import json,sys,os,shutil,glob
c=json.loads(sys.stdin.read().strip().splitlines()[-1])
src,name,rnd,base,here=sys.argv[1:6]
ok=c.get("demo_without_exit")==0 and c.get("apply_exit")==0 and c.get("build_exit")==0 and c.get("build_verif_exit")==0 and c.get("demo_with_exit")!=0 and c.get("passlist")=="same"
if not ok:
    print("NOT CONFIRMED",name); sys.exit(1)
d=os.path.join(here,"seeded",name); os.makedirs(d,exist_ok=True)
shutil.copy(os.path.join(src,"patch.diff"),d)
for f in ("demo.txt","notes.md"):
    p=os.path.join(src,f)
    if os.path.exists(p): shutil.copy(p,d)
for f in glob.glob(os.path.join(src,"*_test.go")):
    b=os.path.basename(f)
    if b in ("zz_demo_test.go","zz_aspectwasm_test.go","zz_wasm_test.go"): continue
    shutil.copy(f,os.path.join(d,b+".txt"))
meta={"property":name[:3],"name":name,"round":int(rnd),"base_commit":base,
 "source":"independent sub-agent given only the property text, a scratch worktree of the repaired tree and a one-line list of earlier ideas to avoid",
 "confirmed_by":"tools/confirm_seed.sh in a scratch worktree outside /repo and /verif",
 "confirmation":{k:c[k] for k in ("demo_without_exit","apply_exit","build_exit","build_verif_exit","demo_with_exit","demo_with_failed_tests","passlist")},
 "needs_to_manifest":"see notes.md (trigger section)",
 "demo_files":"*_test.go.txt -> copy into <worktree>/vm/ without the .txt suffix (plus the harness template files zz_demo_test.go / zz_aspectwasm_test.go where the demo uses them); see demo.txt"}
json.dump(meta,open(os.path.join(d,"meta.json"),"w"),indent=1)
print("STORED",name)
' "$SRC" "$NAME" "$ROUND" "$BASE" "$HERE"
