#!/bin/sh
# usage: tools/run_seed.sh <seed-name> [check-id ...]
# Runs checks against a seeded change WITHOUT touching /repo or /verif: a scratch worktree of
# /repo's HEAD gets the patch, a scratch copy of /verif is pointed at it (go.mod replace), and the
# given checks (default: the seed's own property) run there with the quick tier. One result line
# per check; scratch copies are removed afterwards. (Equivalent to `git -C /repo apply` + ./check +
# `git -C /repo checkout -- .`, but does not disturb checks running against /repo.)
NAME="$1"; shift
DIR=/verif/seeded/$NAME
[ -f "$DIR/patch.diff" ] || { echo "no such seed $NAME"; exit 2; }
PROP=$(echo "$NAME" | cut -c1-3)
[ $# -eq 0 ] && set -- "$PROP"
S=/tmp/seedrun/$NAME
rm -rf "$S/verif"; git -C /repo worktree remove --force "$S/repo" >/dev/null 2>&1; mkdir -p "$S"
git -C /repo worktree add -q --detach "$S/repo" HEAD || exit 2
PATCH="$DIR/patch.diff"
[ -f "$DIR/patch.rebased.diff" ] && PATCH="$DIR/patch.rebased.diff"
cd "$S/repo"
if ! git apply "$PATCH" 2>/dev/null; then
  if ! git apply --3way "$PATCH" >/dev/null 2>&1; then
    echo "SEED $NAME: patch does not apply to the current tree (needs rebase)"
    cd /; git -C /repo worktree remove --force "$S/repo"; exit 3
  fi
fi
mkdir -p "$S/verif"; git -C /verif archive HEAD -- . ':!seeded' ':!evidence' | tar -x -C "$S/verif"   # committed state only
sed -i "s#=> /repo#=> $S/repo#" "$S/verif/go.mod"
for C in "$@"; do
  OUT=/tmp/seedrun/${NAME}_$C.log
  (cd "$S/verif" && ./check "$C" quick) > "$OUT" 2>&1
  RC=$?
  NV=$(grep -c '^VIOLATION' "$OUT")
  KEYS=$(grep '^  key=' "$OUT" | sed 's/ cases=.*//' | sed 's/^  key=//' | head -4 | tr '\n' ' ')
  echo "SEED $NAME check=$C exit=$RC violations=$NV keys: $KEYS"
done
[ -n "${KEEP:-}" ] && { echo "kept $S"; exit 0; }
cd /; git -C /repo worktree remove --force "$S/repo" >/dev/null 2>&1; rm -rf "$S"
