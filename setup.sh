#!/bin/sh
# Offline: warm the Go build cache by building the harness (normal and -race) against /repo.
set -e
cd "$(dirname "$0")"
export GOFLAGS=-mod=mod GOPROXY=off GOSUMDB=off GOTOOLCHAIN=local CGO_ENABLED=1
mkdir -p bin work evidence replays
go build -tags verif -o bin/vcheck ./cmd/vcheck
go build -race -tags verif -o bin/vcheck.race ./cmd/vcheck
echo setup-ok
