// vcheck drives one property's runtime-monitoring check.
//
//	vcheck -prop C01 -tier quick            parent: plan, spawn workers, aggregate, evidence, verdict
//	vcheck -worker -prop C01 -from a -to b  worker: run cases [a,b), journal to -out
//	vcheck -replay file                     re-run one recorded case
package main

import (
	"bufio"
	"context"
	"encoding/json"
	"flag"
	"fmt"
	"os"
	"os/exec"
	"path/filepath"
	"runtime"
	"sort"
	"strconv"
	"strings"
	"sync"
	"time"

	"verif/props"
)

type replayFile struct {
	Property string        `json:"property"`
	Tier     string        `json:"tier"`
	Seed     uint64        `json:"seed"`
	Index    int           `json:"index"`
	Case     props.Case    `json:"case"`
	Finding  props.Finding `json:"finding"`
	Crash    string        `json:"crash,omitempty"`
}

func envSeed() uint64 {
	if s := os.Getenv("VERIF_SEED"); s != "" {
		if v, err := strconv.ParseUint(s, 10, 64); err == nil {
			return v
		}
	}
	return 1
}

func main() {
	var (
		propID  = flag.String("prop", "", "property id")
		tier    = flag.String("tier", "", "quick|thorough")
		worker  = flag.Bool("worker", false, "worker mode")
		from    = flag.Int("from", 0, "")
		to      = flag.Int("to", 0, "")
		out     = flag.String("out", "", "worker journal")
		seedF   = flag.Uint64("seed", 0, "seed (default VERIF_SEED or 1)")
		replay  = flag.String("replay", "", "replay file")
		root    = flag.String("root", "/verif", "verif root")
		jobs    = flag.Int("j", 0, "parallel workers")
		listF   = flag.Bool("list", false, "list case count")
		raceBin = flag.String("racebin", "", "path of the -race build (for Race properties)")
	)
	flag.Parse()
	seed := *seedF
	if seed == 0 {
		seed = envSeed()
	}
	if *tier == "" {
		*tier = os.Getenv("VERIF_TIER")
		if *tier == "" {
			*tier = "quick"
		}
	}
	if *replay != "" {
		os.Exit(doReplay(*replay))
	}
	p := props.Get(*propID)
	if p == nil {
		fmt.Fprintf(os.Stderr, "unknown property %q (have %v)\n", *propID, props.IDs())
		os.Exit(3)
	}
	if *worker {
		os.Exit(doWorker(p, *tier, seed, *from, *to, *out))
	}
	if *listF {
		fmt.Println(len(p.Cases(seed, *tier)))
		return
	}
	os.Exit(doParent(p, *tier, seed, *root, *jobs, *raceBin))
}

func doReplay(path string) int {
	b, err := os.ReadFile(path)
	if err != nil {
		fmt.Fprintln(os.Stderr, err)
		return 3
	}
	var rf replayFile
	if err := json.Unmarshal(b, &rf); err != nil {
		fmt.Fprintln(os.Stderr, err)
		return 3
	}
	p := props.Get(rf.Property)
	if p == nil {
		fmt.Fprintln(os.Stderr, "unknown property", rf.Property)
		return 3
	}
	res := p.Run(rf.Case, rf.Tier)
	enc := json.NewEncoder(os.Stdout)
	enc.SetIndent("", "  ")
	enc.Encode(res.Findings)
	for _, f := range res.Findings {
		if f.Key == rf.Finding.Key {
			fmt.Printf("REPRODUCED property=%s key=%s\n", rf.Property, f.Key)
			return 1
		}
	}
	if len(res.Findings) > 0 {
		return 1
	}
	fmt.Println("not reproduced")
	return 0
}

func doWorker(p *props.Prop, tier string, seed uint64, from, to int, out string) int {
	cases := p.Cases(seed, tier)
	f, err := os.Create(out)
	if err != nil {
		fmt.Fprintln(os.Stderr, err)
		return 3
	}
	defer f.Close()
	w := bufio.NewWriter(f)
	for i := from; i < to && i < len(cases); i++ {
		fmt.Fprintf(w, "B %d\n", i)
		w.Flush()
		res := p.Run(cases[i], tier)
		b, _ := json.Marshal(res)
		fmt.Fprintf(w, "R %d %s\n", i, b)
		w.Flush()
	}
	fmt.Fprintf(w, "D\n")
	w.Flush()
	return 0
}

type known struct {
	prop, key, what string
}

func loadKnown(root string) []known {
	var ks []known
	f, err := os.Open(filepath.Join(root, "known_findings.txt"))
	if err != nil {
		return nil
	}
	defer f.Close()
	sc := bufio.NewScanner(f)
	for sc.Scan() {
		line := strings.TrimSpace(sc.Text())
		if !strings.HasPrefix(line, "known:") {
			continue
		}
		fields := strings.Fields(line[len("known:"):])
		var k known
		var rest []string
		for _, fl := range fields {
			switch {
			case strings.HasPrefix(fl, "property=") && k.prop == "":
				k.prop = fl[len("property="):]
			case strings.HasPrefix(fl, "key=") && k.key == "":
				k.key = fl[len("key="):]
			default:
				rest = append(rest, fl)
			}
		}
		k.what = strings.Join(rest, " ")
		ks = append(ks, k)
	}
	return ks
}

type batchOut struct {
	results  map[int]props.CaseResult
	crashAt  int // -1 none
	crashMsg string
	timeout  bool
	done     bool
}

func runBatch(self string, p *props.Prop, tier string, seed uint64, from, to int, dir string, limit time.Duration) batchOut {
	bo := batchOut{results: map[int]props.CaseResult{}, crashAt: -1}
	jf := filepath.Join(dir, fmt.Sprintf("j_%d_%d.jsonl", from, to))
	lf := filepath.Join(dir, fmt.Sprintf("j_%d_%d.log", from, to))
	args := fmt.Sprintf("%q -worker -prop %s -tier %s -seed %d -from %d -to %d -out %q", self, p.ID, tier, seed, from, to, jf)
	sh := "exec " + args
	if p.Hostile {
		sh = "ulimit -v 8388608; " + sh
	}
	ctx, cancel := context.WithTimeout(context.Background(), limit)
	defer cancel()
	cmd := exec.CommandContext(ctx, "sh", "-c", sh+" > "+strconv.Quote(lf)+" 2>&1")
	cmd.Env = append(os.Environ(), "GOTRACEBACK=single")
	if p.Race {
		cmd.Env = append(cmd.Env, "GORACE=halt_on_error=0 log_path="+filepath.Join(dir, fmt.Sprintf("race_%d_%d", from, to)))
	}
	err := cmd.Run()
	if ctx.Err() == context.DeadlineExceeded {
		bo.timeout = true
	}
	f, ferr := os.Open(jf)
	if ferr != nil {
		bo.crashAt = from
		bo.crashMsg = fmt.Sprintf("worker produced no journal: %v", err)
		return bo
	}
	defer f.Close()
	sc := bufio.NewScanner(f)
	sc.Buffer(make([]byte, 1<<20), 1<<28)
	lastB := -1
	for sc.Scan() {
		line := sc.Text()
		switch {
		case strings.HasPrefix(line, "B "):
			lastB, _ = strconv.Atoi(line[2:])
		case strings.HasPrefix(line, "R "):
			rest := line[2:]
			sp := strings.IndexByte(rest, ' ')
			idx, _ := strconv.Atoi(rest[:sp])
			var r props.CaseResult
			dec := json.NewDecoder(strings.NewReader(rest[sp+1:]))
			dec.UseNumber() // keep 64-bit seeds inside samples exact
			if jerr := dec.Decode(&r); jerr == nil {
				bo.results[idx] = r
			}
			if idx == lastB {
				lastB = -1
			}
		case line == "D":
			bo.done = true
		}
	}
	if !bo.done && !bo.timeout {
		if lastB >= 0 {
			bo.crashAt = lastB
		} else {
			bo.crashAt = from + len(bo.results)
		}
		lb, _ := os.ReadFile(lf)
		if len(lb) > 6000 {
			lb = lb[:6000]
		}
		bo.crashMsg = fmt.Sprintf("worker died (%v): %s", err, lb)
	} else if bo.timeout && lastB >= 0 {
		bo.crashAt = lastB // for reporting which case was running
	}
	return bo
}

func doParent(p *props.Prop, tier string, seed uint64, root string, jobs int, raceBin string) int {
	start := time.Now()
	self, _ := os.Executable()
	if p.Race {
		if raceBin == "" {
			fmt.Fprintln(os.Stderr, "property needs -racebin")
			return 3
		}
		self = raceBin
	}
	cases := p.Cases(seed, tier)
	n := len(cases)
	if jobs <= 0 {
		jobs = runtime.NumCPU()
	}
	if p.Serial {
		jobs = 1
	}
	bs := (n + jobs*4 - 1) / (jobs * 4)
	if bs < 1 {
		bs = 1
	}
	if p.BatchSize != nil {
		bs = p.BatchSize(tier, n)
	}
	dir, err := os.MkdirTemp(filepath.Join(root, "work"), p.ID+"_")
	if err != nil {
		os.MkdirAll(filepath.Join(root, "work"), 0o755)
		dir, err = os.MkdirTemp(filepath.Join(root, "work"), p.ID+"_")
		if err != nil {
			fmt.Fprintln(os.Stderr, err)
			return 3
		}
	}
	defer os.RemoveAll(dir)

	limit := 25 * time.Minute
	if tier == "thorough" {
		limit = 90 * time.Minute
	}

	type span struct{ from, to int }
	var (
		mu       sync.Mutex
		results  = make(map[int]props.CaseResult, n)
		crashes  = map[int]string{}
		timeouts []int
		queue    []span
	)
	for a := 0; a < n; a += bs {
		b := a + bs
		if b > n {
			b = n
		}
		queue = append(queue, span{a, b})
	}
	var wg sync.WaitGroup
	next := func() (span, bool) {
		mu.Lock()
		defer mu.Unlock()
		if len(queue) == 0 {
			return span{}, false
		}
		s := queue[0]
		queue = queue[1:]
		return s, true
	}
	for w := 0; w < jobs; w++ {
		wg.Add(1)
		go func() {
			defer wg.Done()
			for {
				s, ok := next()
				if !ok {
					return
				}
				bo := runBatch(self, p, tier, seed, s.from, s.to, dir, limit)
				mu.Lock()
				for i, r := range bo.results {
					results[i] = r
				}
				if bo.timeout {
					timeouts = append(timeouts, bo.crashAt)
				} else if bo.crashAt >= 0 {
					crashes[bo.crashAt] = bo.crashMsg
					if bo.crashAt+1 < s.to {
						queue = append(queue, span{bo.crashAt + 1, s.to})
					}
				}
				mu.Unlock()
			}
		}()
	}
	wg.Wait()

	// race reports: a report with a frame of the code under test in either stack is a finding;
	// reports wholly inside dependencies / the harness are recorded as external observations
	raceReports, raceExternal := 0, 0
	raceByKey := map[string][]string{}
	if p.Race {
		files, _ := filepath.Glob(filepath.Join(dir, "race_*"))
		for _, f := range files {
			b, _ := os.ReadFile(f)
			blocks := strings.Split(string(b), "WARNING: DATA RACE")
			for _, blk := range blocks[1:] {
				if !strings.Contains(blk, "github.com/artela-network/artela-evm/") && !strings.Contains(blk, "/repo/") {
					raceExternal++
					continue
				}
				raceReports++
				key := props.Key("race", raceLocus(blk))
				if len(blk) > 3500 {
					blk = blk[:3500]
				}
				if len(raceByKey[key]) < 2 {
					raceByKey[key] = append(raceByKey[key], blk)
				} else {
					raceByKey[key] = append(raceByKey[key], "")
				}
			}
		}
	}

	// aggregate
	agg := &props.Agg{Obs: map[string]int64{}, Sets: map[string]map[string]bool{}, Shapes: map[uint64]bool{}}
	type hit struct {
		idx int
		f   props.Finding
	}
	byKey := map[string][]hit{}
	idxs := make([]int, 0, len(results))
	for i := range results {
		idxs = append(idxs, i)
	}
	sort.Ints(idxs)
	for _, i := range idxs {
		r := results[i]
		ev := r.Evals
		if ev == 0 {
			ev = 1
		}
		agg.Evals += ev
		for k, v := range r.Obs {
			if strings.HasPrefix(k, "max_") {
				if v > agg.Obs[k] {
					agg.Obs[k] = v
				}
			} else {
				agg.Obs[k] += v
			}
		}
		for k, vs := range r.Sets {
			if agg.Sets[k] == nil {
				agg.Sets[k] = map[string]bool{}
			}
			for _, v := range vs {
				agg.Sets[k][v] = true
			}
		}
		for _, s := range r.Shapes {
			agg.Shapes[s] = true
		}
		if r.Sample != nil && len(agg.Samples) < 4 {
			agg.Samples = append(agg.Samples, r.Sample)
		}
		for _, f := range r.Findings {
			byKey[f.Key] = append(byKey[f.Key], hit{i, f})
		}
	}
	for i, msg := range crashes {
		key := props.Key("crash", "worker-fatal", cases[i].Kind)
		byKey[key] = append(byKey[key], hit{i, props.Finding{Key: key, Msg: "worker process died while running this case", Detail: strings.Split(msg, "\n")}})
	}
	if p.Race {
		agg.Obs["race_reports_in_code_under_test"] = int64(raceReports)
		agg.Obs["race_reports_external"] = int64(raceExternal)
	}
	if p.Finish != nil {
		for _, f := range p.Finish(agg, tier) {
			byKey[f.Key] = append(byKey[f.Key], hit{-1, f})
		}
	}
	for key, blks := range raceByKey {
		var det []string
		for _, b := range blks {
			if b != "" {
				det = append(det, strings.Split(b, "\n")...)
			}
		}
		for range blks {
			byKey[key] = append(byKey[key], hit{-1, props.Finding{Key: key, Msg: fmt.Sprintf("race detector: %d reports with a frame of artela-evm (first access pair shown)", len(blks)), Detail: det}})
		}
	}

	kn := loadKnown(root)
	isKnown := func(key string) (known, bool) {
		for _, k := range kn {
			if k.prop == p.ID && k.key == key {
				return k, true
			}
		}
		return known{}, false
	}
	keys := make([]string, 0, len(byKey))
	for k := range byKey {
		keys = append(keys, k)
	}
	sort.Strings(keys)
	violations := 0
	knownSeen := 0
	os.MkdirAll(filepath.Join(root, "replays"), 0o755)
	for _, key := range keys {
		hits := byKey[key]
		if k, ok := isKnown(key); ok {
			fmt.Printf("KNOWN-FINDING: property=%s %s (key=%s, %d cases)\n", p.ID, k.what, key, len(hits))
			knownSeen++
			continue
		}
		violations++
		h := hits[0]
		rf := replayFile{Property: p.ID, Tier: tier, Seed: seed, Index: h.idx, Finding: h.f}
		if h.idx >= 0 {
			rf.Case = cases[h.idx]
		}
		name := fmt.Sprintf("%s_%s.json", p.ID, sanitize(key))
		path := filepath.Join(root, "replays", name)
		b, _ := json.MarshalIndent(rf, "", " ")
		os.WriteFile(path, b, 0o644)
		fmt.Printf("VIOLATION property=%s replay=%s\n", p.ID, path)
		fmt.Printf("  key=%s cases=%d msg=%s\n", key, len(hits), h.f.Msg)
	}

	// floors / inconclusive
	var inconclusive []string
	if len(timeouts) > 0 {
		inconclusive = append(inconclusive, fmt.Sprintf("watchdog fired for %d batches", len(timeouts)))
	}
	if len(results)+len(crashes) < n && len(timeouts) == 0 {
		inconclusive = append(inconclusive, fmt.Sprintf("only %d of %d cases reported", len(results), n))
	}
	if p.Floors != nil {
		fl := p.Floors(tier)
		fk := make([]string, 0, len(fl))
		for k := range fl {
			fk = append(fk, k)
		}
		sort.Strings(fk)
		for _, k := range fk {
			if agg.Obs[k] < fl[k] {
				inconclusive = append(inconclusive, fmt.Sprintf("coverage floor %s: observed %d < %d", k, agg.Obs[k], fl[k]))
			}
		}
	}

	// evidence
	observed := map[string]interface{}{}
	for k, v := range agg.Obs {
		observed[k] = v
	}
	for k, s := range agg.Sets {
		if strings.HasPrefix(k, "_") {
			continue // cross-case bookkeeping of a property's Finish function, not an observation
		}
		var vs []string
		for v := range s {
			vs = append(vs, v)
		}
		sort.Strings(vs)
		if len(vs) > 80 {
			observed[k+"_count"] = len(vs)
			vs = vs[:80]
		}
		observed[k] = vs
	}
	samples := agg.Samples
	if len(samples) == 0 {
		for i := 0; i < n && i < 3; i++ {
			samples = append(samples, cases[i])
		}
	}
	cov := map[string]interface{}{
		"evaluations":         agg.Evals,
		"distinct_nontrivial": len(agg.Shapes),
		"rule":                p.Rule,
		"samples":             samples,
		"observed":            observed,
		"cases_planned":       n,
		"cases_reported":      len(results),
		"known_findings_seen": knownSeen,
	}
	if p.Exhaustive != nil && p.Exhaustive(tier) {
		cov["exhaustive"] = true
	}
	if len(inconclusive) > 0 {
		cov["inconclusive"] = inconclusive
	}
	ev := map[string]interface{}{
		"property_id": p.ID,
		"tier":        tier,
		"seed":        seed,
		"level":       p.Level,
		"coverage":    cov,
		"assumptions": p.Assumptions,
		"wall_s":      time.Since(start).Seconds(),
		"violations":  violations,
	}
	os.MkdirAll(filepath.Join(root, "evidence"), 0o755)
	eb, _ := json.MarshalIndent(ev, "", " ")
	os.WriteFile(filepath.Join(root, "evidence", p.ID+".json"), append(eb, '\n'), 0o644)

	fmt.Printf("%s %s seed=%d: cases=%d evaluations=%d distinct=%d violations=%d known=%d wall=%.1fs\n", p.ID, tier, seed, n, agg.Evals, len(agg.Shapes), violations, knownSeen, time.Since(start).Seconds())
	ok := make([]string, 0, len(agg.Obs))
	for k := range agg.Obs {
		ok = append(ok, k)
	}
	sort.Strings(ok)
	for _, k := range ok {
		fmt.Printf("  observed %s=%d\n", k, agg.Obs[k])
	}
	if violations > 0 {
		return 1
	}
	if len(inconclusive) > 0 {
		for _, r := range inconclusive {
			fmt.Printf("INCONCLUSIVE property=%s reason=%s\n", p.ID, r)
		}
		return 2
	}
	return 0
}

// raceLocus names a race report by the first artela-evm function of each of its two access stacks.
func raceLocus(blk string) string {
	var fns []string
	for _, part := range strings.Split(blk, "\n\n") {
		if !(strings.Contains(part, "Write at") || strings.Contains(part, "Read at") || strings.Contains(part, "Previous write") || strings.Contains(part, "Previous read")) {
			continue
		}
		for _, line := range strings.Split(part, "\n") {
			line = strings.TrimSpace(line)
			if strings.HasPrefix(line, "github.com/artela-network/artela-evm/") {
				fn := strings.TrimPrefix(line, "github.com/artela-network/artela-evm/")
				if i := strings.IndexByte(fn, '('); i > 0 && !strings.HasPrefix(fn[i:], "(*") {
					fn = fn[:i]
				}
				if i := strings.LastIndex(fn, "("); i > 0 && strings.HasSuffix(fn, ")") && !strings.Contains(fn[i:], "*") {
					fn = fn[:i]
				}
				fns = append(fns, fn)
				break
			}
		}
		if len(fns) == 2 {
			break
		}
	}
	if len(fns) == 0 {
		return "unattributed"
	}
	return strings.Join(fns, "--")
}

func sanitize(s string) string {
	var b strings.Builder
	for _, c := range s {
		if (c >= 'a' && c <= 'z') || (c >= 'A' && c <= 'Z') || (c >= '0' && c <= '9') || c == '-' || c == '_' || c == '.' {
			b.WriteRune(c)
		} else {
			b.WriteByte('_')
		}
	}
	out := b.String()
	if len(out) > 120 {
		out = out[:120]
	}
	return out
}
