// Package sollayout is an independent decoder of Solidity's storage layout:
// packed value fields inside a 32-byte word and bytes/string values in their
// short (in-place) and long (hashed position) encodings.
package sollayout

import (
	"errors"
	"math/big"

	"golang.org/x/crypto/sha3"
)

// Read returns the 32-byte storage word at a 32-byte slot key.
type Read func(slot [32]byte) [32]byte

var (
	ErrField    = errors.New("not a packed field: need offset <= 31, width <= 32, offset+width <= 32")
	ErrEncoding = errors.New("invalid bytes/string length encoding")
	ErrTooLong  = errors.New("string longer than the decoder's bound")
)

// ValueField returns the bytes of the packed field (offset bytes from the
// low-order end, width bytes wide) of word, in big-endian order as stored.
// offset and width are arbitrary non-negative integers.
func ValueField(word [32]byte, offset, width *big.Int) ([]byte, error) {
	if offset.Sign() < 0 || width.Sign() < 0 || offset.Cmp(big.NewInt(31)) > 0 || width.Cmp(big.NewInt(32)) > 0 {
		return nil, ErrField
	}
	o, w := int(offset.Int64()), int(width.Int64())
	if o+w > 32 {
		return nil, ErrField
	}
	out := make([]byte, w)
	copy(out, word[32-o-w:32-o])
	return out, nil
}

func keccak(b []byte) [32]byte {
	h := sha3.NewLegacyKeccak256()
	h.Write(b)
	var out [32]byte
	h.Sum(out[:0])
	return out
}

// StringLen decodes the length word of a bytes/string variable.
func StringLen(word [32]byte) (n *big.Int, long bool, err error) {
	w := new(big.Int).SetBytes(word[:])
	if word[31]&1 == 0 {
		l := int64(word[31] >> 1)
		if l > 31 {
			return nil, false, ErrEncoding
		}
		return big.NewInt(l), false, nil
	}
	n = new(big.Int).Rsh(w, 1) // (w-1)/2 for odd w
	if n.Cmp(big.NewInt(32)) < 0 {
		return nil, true, ErrEncoding
	}
	return n, true, nil
}

// String returns the content of the bytes/string variable stored at slot.
// maxLen bounds the length the decoder is willing to materialise.
func String(read Read, slot [32]byte, maxLen int) ([]byte, error) {
	word := read(slot)
	n, long, err := StringLen(word)
	if err != nil {
		return nil, err
	}
	if !long {
		return append([]byte{}, word[:n.Int64()]...), nil
	}
	if !n.IsInt64() || n.Int64() > int64(maxLen) {
		return nil, ErrTooLong
	}
	l := int(n.Int64())
	base := new(big.Int).SetBytes(func() []byte { k := keccak(slot[:]); return k[:] }())
	mod := new(big.Int).Lsh(big.NewInt(1), 256)
	out := make([]byte, 0, l+32)
	for i := 0; i*32 < l; i++ {
		p := new(big.Int).Add(base, big.NewInt(int64(i)))
		p.Mod(p, mod)
		var key [32]byte
		p.FillBytes(key[:])
		w := read(key)
		out = append(out, w[:]...)
	}
	return out[:l], nil
}

// EncodeString returns the storage words that hold content at slot:
// the map is slot key -> word.
func EncodeString(slot [32]byte, content []byte) map[[32]byte][32]byte {
	out := map[[32]byte][32]byte{}
	if len(content) < 32 {
		var w [32]byte
		copy(w[:], content)
		w[31] = byte(len(content) * 2)
		out[slot] = w
		return out
	}
	var lw [32]byte
	new(big.Int).SetUint64(uint64(len(content))*2 + 1).FillBytes(lw[:])
	out[slot] = lw
	base := new(big.Int).SetBytes(func() []byte { k := keccak(slot[:]); return k[:] }())
	mod := new(big.Int).Lsh(big.NewInt(1), 256)
	for i := 0; i*32 < len(content); i++ {
		p := new(big.Int).Add(base, big.NewInt(int64(i)))
		p.Mod(p, mod)
		var key, w [32]byte
		p.FillBytes(key[:])
		copy(w[:], content[i*32:])
		out[key] = w
	}
	return out
}
