// Package calltrace builds, from a well-nested stream of tracer events, the tree
// a call tracer is expected to report: every EVM frame under the frame or
// Aspect execution that issued it, every Aspect execution under the frame at
// whose join point it ran, each with its own gas, output and error.
package calltrace

import (
	"fmt"
	"math/big"

	"github.com/ethereum/go-ethereum/common"
)

// Event kinds.
const (
	TxStart = iota
	Start
	Enter
	Exit
	End
	TxEnd
	AspEnter
	AspExit
)

// Ev is one tracer event.
type Ev struct {
	K       int
	Typ     byte // opcode of the frame (Enter); Start: 0xf1 call / 0xf0 create
	From    common.Address
	To      common.Address
	Create  bool
	Input   []byte
	Gas     uint64
	Value   *big.Int
	Output  []byte
	GasUsed uint64
	Err     error
	JP      int64 // join point run type (2 pre-tx, 4 pre-call, 8 post-call, 16 post-tx)
	Aspect  common.Address
	ResGas  uint64 // AspExit: gas left reported by the Aspect
}

// Node is an expected frame or Aspect execution.
type Node struct {
	IsAspect bool
	Typ      byte
	JP       int64
	Aspect   common.Address
	From, To common.Address
	Input    []byte
	Gas      uint64
	GasUsed  uint64
	Output   []byte
	Err      string
	Reverted bool
	Calls    []*Node
	JPs      []*Node // frames only, in order of execution
	Parent   *Node
	running  *Node // frames only: the Aspect execution currently running at this frame
	Exited   bool
}

// ID identifies a node by its input bytes.
func (n *Node) ID() string { return fmt.Sprintf("%x", n.Input) }

// Build constructs the expected tree. revertText is the error text that marks a revert.
func Build(evs []Ev, revertText string) (*Node, error) {
	var root *Node
	var stack []*Node
	var gasLimit uint64
	pending := false // root created by a transaction-level Aspect before Start
	for i, e := range evs {
		switch e.K {
		case TxStart:
			gasLimit = e.Gas
		case Start:
			if (root != nil && !pending) || (len(stack) != 0 && !pending) {
				return nil, fmt.Errorf("event %d: second Start", i)
			}
			typ := byte(0xf1)
			if e.Create {
				typ = 0xf0
			}
			if pending {
				// Aspects of the transaction-level pre join point ran before the top-level frame was announced:
				// they belong to it
				root.Typ, root.From, root.To, root.Input, root.Gas = typ, e.From, e.To, e.Input, gasLimit
				pending = false
			} else {
				root = &Node{Typ: typ, From: e.From, To: e.To, Input: e.Input, Gas: gasLimit}
			}
			stack = append(stack[:0], root)
		case Enter:
			if len(stack) == 0 {
				return nil, fmt.Errorf("event %d: Enter outside Start", i)
			}
			n := &Node{Typ: e.Typ, From: e.From, To: e.To, Input: e.Input, Gas: e.Gas}
			stack = append(stack, n)
		case Exit:
			if len(stack) < 2 {
				return nil, fmt.Errorf("event %d: Exit without Enter", i)
			}
			n := stack[len(stack)-1]
			stack = stack[:len(stack)-1]
			n.GasUsed = e.GasUsed
			n.setResult(e.Output, e.Err, revertText, false)
			n.Exited = true
			top := stack[len(stack)-1]
			if top.running != nil {
				n.Parent = top.running
				top.running.Calls = append(top.running.Calls, n)
			} else {
				n.Parent = top
				top.Calls = append(top.Calls, n)
			}
		case End:
			if len(stack) != 1 {
				return nil, fmt.Errorf("event %d: End with %d frames open", i, len(stack))
			}
			root.setResult(e.Output, e.Err, revertText, false)
			root.Exited = true
			stack = stack[:0]
		case TxEnd:
			if root != nil {
				root.GasUsed = gasLimit - e.Gas
			}
		case AspEnter:
			var top *Node
			switch {
			case len(stack) > 0:
				top = stack[len(stack)-1]
			case root == nil:
				// before the top-level frame: transaction-level pre join point
				root = &Node{}
				pending = true
				top = root
				stack = append(stack, root) // (calls made by such an Aspect nest under it)
			default:
				// before the top-level frame (again) or after it ended: transaction-level join points
				top = root
				stack = append(stack, root)
			}
			if top.running != nil {
				return nil, fmt.Errorf("event %d: Aspect entered while another runs at the same frame", i)
			}
			a := &Node{IsAspect: true, JP: e.JP, Aspect: e.Aspect, From: e.From, To: e.To, Input: e.Input, Gas: e.Gas, Parent: top}
			top.JPs = append(top.JPs, a)
			top.running = a
		case AspExit:
			var top *Node
			if len(stack) > 0 {
				top = stack[len(stack)-1]
			} else {
				top = root
			}
			if top == nil || top.running == nil {
				return nil, fmt.Errorf("event %d: Aspect exit without enter", i)
			}
			a := top.running
			a.GasUsed = a.Gas - e.ResGas
			a.setResult(e.Output, e.Err, revertText, true)
			a.Exited = true
			top.running = nil
		}
	}
	if root == nil || pending {
		return nil, fmt.Errorf("no Start event")
	}
	return root, nil
}

func (n *Node) setResult(out []byte, err error, revertText string, aspect bool) {
	if err == nil {
		n.Output = out
		return
	}
	n.Err = err.Error()
	n.Reverted = n.Err == revertText
	if aspect {
		if len(out) > 0 {
			n.Output = out
		}
		return
	}
	if n.Reverted && len(out) > 0 {
		n.Output = out
	}
}

// Walk visits every node (frames and Aspect executions) in flattening order:
// the node, its pre-call Aspect executions, its calls, its post-call ones.
func (n *Node) Walk(f func(*Node)) {
	f(n)
	if n.IsAspect {
		for _, c := range n.Calls {
			c.Walk(f)
		}
		return
	}
	for _, a := range n.JPs {
		if isPre(a.JP) {
			a.Walk(f)
		}
	}
	for _, c := range n.Calls {
		c.Walk(f)
	}
	for _, a := range n.JPs {
		if !isPre(a.JP) {
			a.Walk(f)
		}
	}
}

func isPre(jp int64) bool { return jp == 2 || jp == 4 }

// Children returns the emitted children of a node in flattening order.
func (n *Node) Children() []*Node {
	if n.IsAspect {
		return n.Calls
	}
	var out []*Node
	for _, a := range n.JPs {
		if isPre(a.JP) {
			out = append(out, a)
		}
	}
	out = append(out, n.Calls...)
	for _, a := range n.JPs {
		if !isPre(a.JP) {
			out = append(out, a)
		}
	}
	return out
}
