// Package abibytes is a strict, overflow-proof reference decoder for the ABI
// encoding of (bytes, bytes) used by the context-write precompile. All
// arithmetic is done on big integers so that no offset or length can wrap.
package abibytes

import (
	"errors"
	"math/big"
)

// Class of a payload.
type Class int

const (
	Invalid      Class = iota // some offset/length word points outside the payload (or the payload is too short)
	Canonical                 // the encoding abi.encode(key, value) produces
	NonCanonical              // every word is in bounds but the layout is not the canonical one
)

var ErrBounds = errors.New("offset or length out of bounds")

func word(input []byte, at *big.Int) (*big.Int, bool) {
	end := new(big.Int).Add(at, big.NewInt(32))
	if at.Sign() < 0 || end.Cmp(big.NewInt(int64(len(input)))) > 0 {
		return nil, false
	}
	a := int(at.Int64())
	return new(big.Int).SetBytes(input[a : a+32]), true
}

func param(input []byte, index int) ([]byte, *big.Int, *big.Int, error) {
	off, ok := word(input, big.NewInt(int64(32*index)))
	if !ok {
		return nil, nil, nil, ErrBounds
	}
	l, ok := word(input, off)
	if !ok {
		return nil, nil, nil, ErrBounds
	}
	start := new(big.Int).Add(off, big.NewInt(32))
	end := new(big.Int).Add(start, l)
	if end.Cmp(big.NewInt(int64(len(input)))) > 0 {
		return nil, nil, nil, ErrBounds
	}
	return input[start.Int64():end.Int64()], off, l, nil
}

func pad32(n int64) int64 { return (n + 31) / 32 * 32 }

// Decode returns key and value and the class of the payload.
func Decode(input []byte) (key, value []byte, cls Class) {
	k, koff, klen, err := param(input, 0)
	if err != nil {
		return nil, nil, Invalid
	}
	v, voff, vlen, err := param(input, 1)
	if err != nil {
		return nil, nil, Invalid
	}
	cls = NonCanonical
	if koff.Cmp(big.NewInt(64)) == 0 {
		wantV := 64 + 32 + pad32(klen.Int64())
		if voff.Cmp(big.NewInt(wantV)) == 0 && int64(len(input)) == wantV+32+pad32(vlen.Int64()) {
			cls = Canonical
		}
	}
	return k, v, cls
}

// Encode produces the canonical encoding.
func Encode(key, value []byte) []byte {
	w := func(n int64) []byte {
		b := make([]byte, 32)
		new(big.Int).SetInt64(n).FillBytes(b)
		return b
	}
	padded := func(b []byte) []byte {
		out := make([]byte, pad32(int64(len(b))))
		copy(out, b)
		return out
	}
	var out []byte
	out = append(out, w(64)...)
	out = append(out, w(64+32+pad32(int64(len(key))))...)
	out = append(out, w(int64(len(key)))...)
	out = append(out, padded(key)...)
	out = append(out, w(int64(len(value)))...)
	out = append(out, padded(value)...)
	return out
}
