// Package keyreg is an executable sequential reference model of the tracer's
// key registry (vm/tracer.go StateChanges + CallTree cursor): registrations of
// top-level and nested keys, change journals, balance journals and the call
// cursor. It is deliberately written with flat maps keyed by strings, sharing
// no structure with the implementation.
package keyreg

import (
	"bytes"
	"fmt"
	"math/big"
	"sort"
	"strings"
)

// Pos identifies a key by position: account, slot, offset, type id.
type Pos struct {
	Acct string
	Slot string // 32-byte slot, hex
	Off  uint8
	Typ  string
}

func (p Pos) String() string { return fmt.Sprintf("%s/%s/%d/%s", p.Acct, p.Slot, p.Off, p.Typ) }

// Key is one registered key.
type Key struct {
	Pos    Pos
	Path   string // account + "\x00" + name + "\x00" + index ... (unique path)
	Name   string // last path element
	Parent string // parent path ("" for top-level)
	// Changes per call index, chronological, immediate repeats collapsed. nil = never journaled.
	Changes map[uint64][][]byte
}

// Model is the registry state.
type Model struct {
	ByPath map[string]*Key
	ByPos  map[Pos]*Key
	// Roots: accounts that have a root node (created by a top-level registration or a balance record).
	Roots map[string]bool
	// Balance journal per account.
	Balance map[string]map[uint64][]*big.Int
	// call cursor
	stack []uint64
	Count uint64
}

func New() *Model {
	return &Model{ByPath: map[string]*Key{}, ByPos: map[Pos]*Key{}, Roots: map[string]bool{}, Balance: map[string]map[uint64][]*big.Int{}}
}

// Cur returns the current call index (0 when no call is open).
func (m *Model) Cur() uint64 {
	if len(m.stack) == 0 {
		return 0
	}
	return m.stack[len(m.stack)-1]
}

func (m *Model) Enter() {
	m.stack = append(m.stack, m.Count)
	m.Count++
}

func (m *Model) Exit() {
	if len(m.stack) > 0 {
		m.stack = m.stack[:len(m.stack)-1]
	}
}

// Open returns the number of open calls.
func (m *Model) Open() int { return len(m.stack) }

// OffsetOK says whether a 256-bit offset (given as big.Int; nil = absent) is a valid packed offset.
func OffsetOK(off *big.Int) (uint8, bool) {
	if off == nil {
		return 0, true
	}
	if off.Sign() < 0 || off.Cmp(big.NewInt(31)) > 0 {
		return 0, false
	}
	return uint8(off.Uint64()), true
}

func topPath(acct, name string) string { return acct + "\x00" + name }

// RegTop registers a top-level state variable. Returns false when refused.
func (m *Model) RegTop(acct, name, slot string, off *big.Int, typ string) bool {
	o, ok := OffsetOK(off)
	if !ok {
		return false
	}
	m.Roots[acct] = true
	m.register(topPath(acct, name), "", name, Pos{acct, slot, o, typ})
	return true
}

// RegNested registers a member/element under the parent found by position (parentSlot, offset 0, parentTyp).
func (m *Model) RegNested(acct, parentSlot, parentTyp, slot string, off *big.Int, typ string, index string) bool {
	o, ok := OffsetOK(off)
	if !ok {
		return false
	}
	parent := m.ByPos[Pos{acct, parentSlot, 0, parentTyp}]
	if parent == nil {
		return false
	}
	m.register(parent.Path+"\x00"+index, parent.Path, index, Pos{acct, slot, o, typ})
	return true
}

func (m *Model) register(path, parent, name string, pos Pos) {
	if _, ok := m.ByPath[path]; ok {
		return // idempotent
	}
	if _, ok := m.ByPos[pos]; ok {
		return // position already denotes a key (layout-consistent histories never get here with a different path)
	}
	k := &Key{Pos: pos, Path: path, Name: name, Parent: parent}
	m.ByPath[path] = k
	m.ByPos[pos] = k
}

// Journal records a change. Returns false when refused.
func (m *Model) Journal(acct, slot string, off *big.Int, typ string, val []byte) bool {
	o, ok := OffsetOK(off)
	if !ok {
		return false
	}
	if !m.Roots[acct] {
		return false
	}
	k := m.ByPos[Pos{acct, slot, o, typ}]
	if k == nil {
		return false
	}
	if k.Changes == nil {
		k.Changes = map[uint64][][]byte{}
	}
	l := k.Changes[m.Cur()]
	if len(l) > 0 && bytes.Equal(l[len(l)-1], val) {
		return true // immediate repeat within one call: recorded once
	}
	k.Changes[m.Cur()] = append(l, append([]byte{}, val...))
	return true
}

// Transfer records the four balance observations of a value transfer.
func (m *Model) Transfer(from, to string, fromBefore, toBefore, fromAfter, toAfter *big.Int) {
	for _, ob := range []struct {
		a string
		v *big.Int
	}{{from, fromBefore}, {to, toBefore}, {from, fromAfter}, {to, toAfter}} {
		m.Roots[ob.a] = true
		if m.Balance[ob.a] == nil {
			m.Balance[ob.a] = map[uint64][]*big.Int{}
		}
		l := m.Balance[ob.a][m.Cur()]
		if len(l) > 0 && l[len(l)-1].Cmp(ob.v) == 0 {
			continue
		}
		m.Balance[ob.a][m.Cur()] = append(l, new(big.Int).Set(ob.v))
	}
}

// Children returns the names registered directly under path, sorted.
func (m *Model) Children(path string) []string {
	var out []string
	for _, k := range m.ByPath {
		if k.Parent == path && path != "" {
			out = append(out, k.Name)
		}
	}
	sort.Strings(out)
	return out
}

// TopLevel returns the names of top-level keys of an account, sorted.
func (m *Model) TopLevel(acct string) []string {
	var out []string
	for _, k := range m.ByPath {
		if k.Parent == "" && k.Pos.Acct == acct {
			out = append(out, k.Name)
		}
	}
	sort.Strings(out)
	return out
}

// PathElems splits a path into account, name and indices.
func PathElems(path string) []string { return strings.Split(path, "\x00") }

// Canon renders a change map canonically.
func Canon(ch map[uint64][][]byte) string {
	if ch == nil {
		return "<nil>"
	}
	idx := make([]uint64, 0, len(ch))
	for i := range ch {
		idx = append(idx, i)
	}
	sort.Slice(idx, func(a, b int) bool { return idx[a] < idx[b] })
	var b strings.Builder
	for _, i := range idx {
		fmt.Fprintf(&b, "%d:[", i)
		for j, v := range ch[i] {
			if j > 0 {
				b.WriteByte(' ')
			}
			fmt.Fprintf(&b, "%x", v)
		}
		b.WriteString("];")
	}
	return b.String()
}

// CanonBal renders a balance journal canonically (as integers).
func CanonBal(ch map[uint64][]*big.Int) string {
	if ch == nil {
		return "<nil>"
	}
	idx := make([]uint64, 0, len(ch))
	for i := range ch {
		idx = append(idx, i)
	}
	sort.Slice(idx, func(a, b int) bool { return idx[a] < idx[b] })
	var b strings.Builder
	for _, i := range idx {
		fmt.Fprintf(&b, "%d:[", i)
		for j, v := range ch[i] {
			if j > 0 {
				b.WriteByte(' ')
			}
			b.WriteString(v.String())
		}
		b.WriteString("];")
	}
	return b.String()
}
