package harness

import (
	"math/big"
	"sort"

	"github.com/ethereum/go-ethereum/common"
	"github.com/ethereum/go-ethereum/core/rawdb"
	"github.com/ethereum/go-ethereum/core/state"
)

// Fixed cast of accounts.
var (
	Sender    = common.HexToAddress("0x1000000000000000000000000000000000000001")
	Origin    = common.HexToAddress("0x1000000000000000000000000000000000000002")
	Coinbase  = common.HexToAddress("0x1000000000000000000000000000000000000c0b")
	EOARich   = common.HexToAddress("0x2000000000000000000000000000000000000001") // code-less, with balance
	EOAPoor   = common.HexToAddress("0x2000000000000000000000000000000000000002") // code-less, exists (nonce 1), zero balance
	Nobody    = common.HexToAddress("0x2000000000000000000000000000000000000003") // does not exist
	EmptyAcct = common.HexToAddress("0x2000000000000000000000000000000000000004") // exists but is empty (no balance, nonce or code)
	AspectID1 = common.HexToAddress("0xa500000000000000000000000000000000000001")
)

// ContractAddr returns the fixed address of contract i.
func ContractAddr(i int) common.Address {
	var a common.Address
	a[0] = 0xc0
	a[1] = 0xde
	a[19] = byte(i + 1)
	return a
}

// Acct is one pre-state account.
type Acct struct {
	Addr    common.Address
	Balance *big.Int
	Nonce   uint64
	Code    []byte
	Storage map[common.Hash]common.Hash
}

// World is a pre-state.
type World struct {
	Accts []Acct
}

// Get returns the account entry for addr (nil when absent).
func (w *World) Get(addr common.Address) *Acct {
	for i := range w.Accts {
		if w.Accts[i].Addr == addr {
			return &w.Accts[i]
		}
	}
	return nil
}

// Set adds or replaces an account.
func (w *World) Set(a Acct) {
	if a.Balance == nil {
		a.Balance = new(big.Int)
	}
	for i := range w.Accts {
		if w.Accts[i].Addr == a.Addr {
			w.Accts[i] = a
			return
		}
	}
	w.Accts = append(w.Accts, a)
}

// NewState materialises the world as a fresh committed in-memory StateDB.
func (w *World) NewState() *state.StateDB {
	db := state.NewDatabase(rawdb.NewMemoryDatabase())
	sdb, err := state.New(common.Hash{}, db, nil)
	if err != nil {
		panic(err)
	}
	for _, a := range w.Accts {
		sdb.CreateAccount(a.Addr)
		if a.Balance != nil {
			sdb.SetBalance(a.Addr, new(big.Int).Set(a.Balance))
		}
		sdb.SetNonce(a.Addr, a.Nonce)
		if len(a.Code) > 0 {
			sdb.SetCode(a.Addr, a.Code)
		}
		keys := make([]common.Hash, 0, len(a.Storage))
		for k := range a.Storage {
			keys = append(keys, k)
		}
		sort.Slice(keys, func(i, j int) bool { return string(keys[i][:]) < string(keys[j][:]) })
		for _, k := range keys {
			sdb.SetState(a.Addr, k, a.Storage[k])
		}
	}
	root, err := sdb.Commit(false)
	if err != nil {
		panic(err)
	}
	sdb, err = state.New(root, db, nil)
	if err != nil {
		panic(err)
	}
	return sdb
}

// BaseWorld returns the standard cast with the given contract codes.
func BaseWorld(codes [][]byte) *World {
	w := &World{}
	eth := new(big.Int).Exp(big.NewInt(10), big.NewInt(18), nil)
	w.Set(Acct{Addr: Sender, Balance: new(big.Int).Mul(eth, big.NewInt(1000)), Nonce: 5})
	w.Set(Acct{Addr: Origin, Balance: new(big.Int).Set(eth), Nonce: 1})
	w.Set(Acct{Addr: EOARich, Balance: big.NewInt(12345), Nonce: 0})
	w.Set(Acct{Addr: EOAPoor, Balance: big.NewInt(0), Nonce: 1})
	w.Set(Acct{Addr: EmptyAcct, Balance: big.NewInt(0), Nonce: 0})
	for i, c := range codes {
		w.Set(Acct{Addr: ContractAddr(i), Balance: big.NewInt(int64(1000 * (i + 1))), Nonce: 1, Code: c, Storage: map[common.Hash]common.Hash{}})
	}
	return w
}

func HashU(v uint64) common.Hash { return common.BigToHash(new(big.Int).SetUint64(v)) }
