package harness

import (
	"math/big"

	"github.com/holiman/uint256"
)

// RNG is a splitmix64 stream. Case lists are pure functions of (seed, tier).
type RNG struct{ s uint64 }

func NewRNG(seed uint64) *RNG { return &RNG{s: seed} }

func mix64(z uint64) uint64 {
	z = (z ^ (z >> 30)) * 0xbf58476d1ce4e5b9
	z = (z ^ (z >> 27)) * 0x94d049bb133111eb
	return z ^ (z >> 31)
}

// Mix derives a sub-seed from several values.
func Mix(vals ...uint64) uint64 {
	h := uint64(0x9e3779b97f4a7c15)
	for _, v := range vals {
		h = mix64(h + 0x9e3779b97f4a7c15 + v)
	}
	return h
}

// MixS folds a string into a seed.
func MixS(seed uint64, s string) uint64 {
	h := seed
	for i := 0; i < len(s); i++ {
		h = mix64(h*31 + uint64(s[i]) + 0x9e3779b97f4a7c15)
	}
	return h
}

func (r *RNG) U64() uint64 {
	r.s += 0x9e3779b97f4a7c15
	return mix64(r.s)
}

func (r *RNG) Intn(n int) int {
	if n <= 1 {
		return 0
	}
	return int(r.U64() % uint64(n))
}

func (r *RNG) Range(lo, hi int) int { return lo + r.Intn(hi-lo+1) }

func (r *RNG) Bool() bool { return r.U64()&1 == 1 }

// Chance returns true with probability pct/100.
func (r *RNG) Chance(pct int) bool { return r.Intn(100) < pct }

func (r *RNG) Bytes(n int) []byte {
	b := make([]byte, n)
	for i := 0; i < n; i += 8 {
		v := r.U64()
		for j := 0; j < 8 && i+j < n; j++ {
			b[i+j] = byte(v >> (8 * j))
		}
	}
	return b
}

func Pick[T any](r *RNG, xs []T) T { return xs[r.Intn(len(xs))] }

// U256 returns a uniformly random 256-bit value.
func (r *RNG) U256() *uint256.Int {
	return new(uint256.Int).SetBytes(r.Bytes(32))
}

var boundaryU256 []*uint256.Int

func init() {
	add := func(v *uint256.Int) { boundaryU256 = append(boundaryU256, v) }
	for _, u := range []uint64{0, 1, 2, 3, 7, 8, 15, 16, 31, 32, 33, 63, 64, 255, 256, 257, 0xffff, 0x10000, 1<<31 - 1, 1 << 31, 1<<32 - 1, 1 << 32, 1<<63 - 1, 1 << 63, 1<<64 - 1} {
		add(uint256.NewInt(u))
	}
	for _, k := range []uint{64, 65, 127, 128, 129, 160, 191, 192, 254, 255} {
		v := new(uint256.Int).Lsh(uint256.NewInt(1), k)
		add(v)
		add(new(uint256.Int).Sub(v, uint256.NewInt(1)))
		add(new(uint256.Int).Add(v, uint256.NewInt(1)))
	}
	max := new(uint256.Int).Not(uint256.NewInt(0))
	add(max)
	add(new(uint256.Int).Sub(max, uint256.NewInt(1)))
	add(new(uint256.Int).Sub(max, uint256.NewInt(31)))
	// small negatives
	for _, u := range []uint64{2, 3, 32, 255} {
		add(new(uint256.Int).Neg(uint256.NewInt(u)))
	}
	// min signed + 1
	add(new(uint256.Int).Add(new(uint256.Int).Lsh(uint256.NewInt(1), 255), uint256.NewInt(1)))
}

// BoundaryU256 returns the shared list of boundary operands.
func BoundaryU256() []*uint256.Int { return boundaryU256 }

// Operand draws a 256-bit operand biased towards boundaries.
func (r *RNG) Operand() *uint256.Int {
	switch r.Intn(10) {
	case 0, 1, 2, 3, 4:
		return new(uint256.Int).Set(Pick(r, boundaryU256))
	case 5, 6:
		return uint256.NewInt(uint64(r.Intn(300)))
	case 7:
		return uint256.NewInt(r.U64())
	default:
		return r.U256()
	}
}

func BigFromU256(v *uint256.Int) *big.Int { return v.ToBig() }
