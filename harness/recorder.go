package harness

import (
	"math/big"
	"runtime"

	avm "github.com/artela-network/artela-evm/vm"
	atypes "github.com/artela-network/aspect-core/types"
	"github.com/ethereum/go-ethereum/common"
	evm "github.com/ethereum/go-ethereum/core/vm"
	"github.com/ethereum/go-ethereum/crypto"
	"github.com/holiman/uint256"
	"google.golang.org/protobuf/proto"
)

// ForkRecorder implements the fork's EVMLogger and aspect-core's AspectLogger.
// Everything handed to it is deep-copied inside the callback: the VM reuses
// stacks, memory and the locals the join-point request points to.
type ForkRecorder struct {
	L       *Log
	Proxy   *StateProxy
	OnStep  func(e *Event, scope *avm.ScopeContext) // optional online monitor hook
	Alloc   bool                                    // sample runtime allocation counters
	Env     *avm.EVM
	StepCnt uint64
	// PreStep, when set, runs at the very start of every instruction callback, before the
	// recorder makes its own copies (work counters sample here so that the recorder is not charged).
	PreStep func()
}

func memInfo(l *Log, data []byte) (cp []byte, n int, h common.Hash) {
	n = len(data)
	if l.LightMem {
		return nil, n, common.Hash{}
	}
	if n <= MemCap {
		return cpBytes(data), n, common.Hash{}
	}
	return nil, n, crypto.Keccak256Hash(data)
}

func cpStack(s []uint256.Int) []uint256.Int {
	out := make([]uint256.Int, len(s))
	copy(out, s)
	return out
}

func (r *ForkRecorder) CaptureTxStart(gasLimit uint64) { r.L.add(Event{K: KTxStart, Gas: gasLimit}) }
func (r *ForkRecorder) CaptureTxEnd(restGas uint64)    { r.L.add(Event{K: KTxEnd, Gas: restGas}) }

func (r *ForkRecorder) CaptureStart(env *avm.EVM, from common.Address, to common.Address, create bool, input []byte, gas uint64, value *big.Int) {
	r.Env = env
	r.L.add(Event{K: KStart, From: from, To: to, Create: create, Input: cpBytes(input), Gas: gas, Value: cpBig(value)})
}

func (r *ForkRecorder) CaptureEnd(output []byte, gasUsed uint64, err error) {
	e := Event{K: KEnd, Output: cpBytes(output), GasUsed: gasUsed, Err: ErrClass(err), ErrVal: err}
	if err != nil {
		e.ErrText = err.Error()
	}
	r.L.add(e)
}

func (r *ForkRecorder) CaptureEnter(typ avm.OpCode, from common.Address, to common.Address, input []byte, gas uint64, value *big.Int) {
	r.L.add(Event{K: KEnter, Typ: byte(typ), From: from, To: to, Input: cpBytes(input), Gas: gas, Value: cpBig(value)})
}

func (r *ForkRecorder) CaptureExit(output []byte, gasUsed uint64, err error) {
	e := Event{K: KExit, Output: cpBytes(output), GasUsed: gasUsed, Err: ErrClass(err), ErrVal: err}
	if err != nil {
		e.ErrText = err.Error()
	}
	r.L.add(e)
}

func (r *ForkRecorder) step(k Kind, pc uint64, op avm.OpCode, gas, cost uint64, scope *avm.ScopeContext, rData []byte, depth int, err error) {
	if r.PreStep != nil {
		r.PreStep()
	}
	r.StepCnt++
	e := Event{K: k, PC: pc, Op: byte(op), Gas: gas, Cost: cost, Depth: depth, Err: ErrClass(err), ErrVal: err}
	if err != nil {
		e.ErrText = err.Error()
	}
	if r.Proxy != nil {
		e.Reads = r.Proxy.Reads
	}
	if r.Alloc {
		var ms runtime.MemStats
		runtime.ReadMemStats(&ms)
		e.Alloc = ms.TotalAlloc
	}
	if scope != nil {
		if scope.Contract != nil {
			e.Addr = scope.Contract.Address()
			if scope.Contract.CodeAddr != nil {
				e.Code = *scope.Contract.CodeAddr
			}
		}
		if r.L.RecSteps {
			if scope.Stack != nil {
				e.Stack = cpStack(scope.Stack.Data())
			}
			if scope.Memory != nil {
				e.Mem, e.MemLen, e.MemHash = memInfo(r.L, scope.Memory.Data())
			}
			e.RData = cpBytes(rData)
		} else if scope.Memory != nil {
			e.MemLen = scope.Memory.Len()
		}
	}
	pe := r.L.add(e)
	if r.OnStep != nil && k == KStep {
		r.OnStep(pe, scope)
	}
}

func (r *ForkRecorder) CaptureState(pc uint64, op avm.OpCode, gas, cost uint64, scope *avm.ScopeContext, rData []byte, depth int, err error) {
	r.step(KStep, pc, op, gas, cost, scope, rData, depth, err)
}

func (r *ForkRecorder) CaptureFault(pc uint64, op avm.OpCode, gas, cost uint64, scope *avm.ScopeContext, depth int, err error) {
	r.step(KFault, pc, op, gas, cost, scope, nil, depth, err)
}

func (r *ForkRecorder) CaptureAspectEnter(joinpoint atypes.JoinPointRunType, from, to, aspectId common.Address, input []byte, gas uint64, value *big.Int, execCtx proto.Message) {
	e := Event{K: KAspectEnter, JP: int64(joinpoint), From: from, To: to, AspectID: aspectId, Input: cpBytes(input), Gas: gas, Value: cpBig(value)}
	if execCtx != nil {
		e.Req = proto.Clone(execCtx)
	}
	r.L.add(e)
}

func (r *ForkRecorder) CaptureAspectExit(joinpoint atypes.JoinPointRunType, result *atypes.AspectExecutionResult) {
	e := Event{K: KAspectExit, JP: int64(joinpoint)}
	if result != nil {
		e.ResGas = result.Gas
		e.Output = cpBytes(result.Ret)
		e.ErrVal = result.Err
		e.Err = ErrClass(result.Err)
		if result.Err != nil {
			e.ErrText = result.Err.Error()
		}
	}
	r.L.add(e)
}

// RefRecorder implements upstream go-ethereum's EVMLogger.
type RefRecorder struct {
	L *Log
}

func (r *RefRecorder) CaptureTxStart(gasLimit uint64) { r.L.add(Event{K: KTxStart, Gas: gasLimit}) }
func (r *RefRecorder) CaptureTxEnd(restGas uint64)    { r.L.add(Event{K: KTxEnd, Gas: restGas}) }

func (r *RefRecorder) CaptureStart(env *evm.EVM, from common.Address, to common.Address, create bool, input []byte, gas uint64, value *big.Int) {
	r.L.add(Event{K: KStart, From: from, To: to, Create: create, Input: cpBytes(input), Gas: gas, Value: cpBig(value)})
}

func (r *RefRecorder) CaptureEnd(output []byte, gasUsed uint64, err error) {
	e := Event{K: KEnd, Output: cpBytes(output), GasUsed: gasUsed, Err: ErrClass(err), ErrVal: err}
	if err != nil {
		e.ErrText = err.Error()
	}
	r.L.add(e)
}

func (r *RefRecorder) CaptureEnter(typ evm.OpCode, from common.Address, to common.Address, input []byte, gas uint64, value *big.Int) {
	r.L.add(Event{K: KEnter, Typ: byte(typ), From: from, To: to, Input: cpBytes(input), Gas: gas, Value: cpBig(value)})
}

func (r *RefRecorder) CaptureExit(output []byte, gasUsed uint64, err error) {
	e := Event{K: KExit, Output: cpBytes(output), GasUsed: gasUsed, Err: ErrClass(err), ErrVal: err}
	if err != nil {
		e.ErrText = err.Error()
	}
	r.L.add(e)
}

func (r *RefRecorder) step(k Kind, pc uint64, op evm.OpCode, gas, cost uint64, scope *evm.ScopeContext, rData []byte, depth int, err error) {
	e := Event{K: k, PC: pc, Op: byte(op), Gas: gas, Cost: cost, Depth: depth, Err: ErrClass(err), ErrVal: err}
	if err != nil {
		e.ErrText = err.Error()
	}
	if scope != nil {
		if scope.Contract != nil {
			e.Addr = scope.Contract.Address()
			if scope.Contract.CodeAddr != nil {
				e.Code = *scope.Contract.CodeAddr
			}
		}
		if r.L.RecSteps {
			if scope.Stack != nil {
				e.Stack = cpStack(scope.Stack.Data())
			}
			if scope.Memory != nil {
				e.Mem, e.MemLen, e.MemHash = memInfo(r.L, scope.Memory.Data())
			}
			e.RData = cpBytes(rData)
		} else if scope.Memory != nil {
			e.MemLen = scope.Memory.Len()
		}
	}
	r.L.add(e)
}

func (r *RefRecorder) CaptureState(pc uint64, op evm.OpCode, gas, cost uint64, scope *evm.ScopeContext, rData []byte, depth int, err error) {
	r.step(KStep, pc, op, gas, cost, scope, rData, depth, err)
}

func (r *RefRecorder) CaptureFault(pc uint64, op evm.OpCode, gas, cost uint64, scope *evm.ScopeContext, depth int, err error) {
	r.step(KFault, pc, op, gas, cost, scope, nil, depth, err)
}
