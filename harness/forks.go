package harness

import (
	"math/big"

	"github.com/ethereum/go-ethereum/params"
)

// Fork identifies a cumulative rule set.
type Fork int

const (
	Frontier Fork = iota
	Homestead
	Tangerine
	Spurious
	Byzantium
	Constantinople
	Petersburg
	Istanbul
	Berlin
	London
	Merge
	Shanghai
	Cancun
	NumForks
)

// Prague is configured by the chain configuration (PragueTime) although v1.12.0 gives it no rules of its own:
// everything that holds from Cancun on has to keep holding. It is not part of the random fork pickers.
const Prague Fork = NumForks

var forkNames = []string{"Frontier", "Homestead", "Tangerine", "Spurious", "Byzantium", "Constantinople", "Petersburg", "Istanbul", "Berlin", "London", "Merge", "Shanghai", "Cancun", "Prague"}

func (f Fork) String() string { return forkNames[f] }

// AllForksToShanghai lists Frontier..Shanghai.
func AllForksToShanghai() []Fork {
	var fs []Fork
	for f := Frontier; f <= Shanghai; f++ {
		fs = append(fs, f)
	}
	return fs
}

// ChainConfig builds a cumulative chain configuration: a fork implies all earlier ones.
func ChainConfig(f Fork) *params.ChainConfig {
	z := func() *big.Int { return big.NewInt(0) }
	c := &params.ChainConfig{ChainID: big.NewInt(1)}
	if f >= Homestead {
		c.HomesteadBlock = z()
	}
	if f >= Tangerine {
		c.EIP150Block = z()
	}
	if f >= Spurious {
		c.EIP155Block = z()
		c.EIP158Block = z()
	}
	if f >= Byzantium {
		c.ByzantiumBlock = z()
	}
	if f >= Constantinople {
		c.ConstantinopleBlock = z()
	}
	if f >= Petersburg {
		c.PetersburgBlock = z()
	}
	if f >= Istanbul {
		c.IstanbulBlock = z()
		c.MuirGlacierBlock = z()
	}
	if f >= Berlin {
		c.BerlinBlock = z()
	}
	if f >= London {
		c.LondonBlock = z()
		c.ArrowGlacierBlock = z()
		c.GrayGlacierBlock = z()
	}
	if f >= Merge {
		c.MergeNetsplitBlock = z()
		c.TerminalTotalDifficulty = z()
		c.TerminalTotalDifficultyPassed = true
	}
	if f >= Shanghai {
		t := uint64(0)
		c.ShanghaiTime = &t
	}
	if f >= Cancun {
		t := uint64(0)
		c.CancunTime = &t
	}
	if f >= Prague {
		t := uint64(0)
		c.PragueTime = &t
	}
	return c
}

// IsMergeOrLater tells whether BlockContext.Random must be set.
func (f Fork) IsMergeOrLater() bool { return f >= Merge }
