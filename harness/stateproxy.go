package harness

import (
	"math/big"

	"github.com/ethereum/go-ethereum/common"
	"github.com/ethereum/go-ethereum/core/state"
	"github.com/ethereum/go-ethereum/core/types"
)

// ReadLimitPanic is the sentinel the proxy panics with when one instruction
// exceeded the per-instruction read cap (C20: the violation is established; do
// not spin for 2^64 iterations).
type ReadLimitPanic struct{ Reads uint64 }

// StateProxy wraps a real go-ethereum StateDB and logs every mutation,
// snapshot and revert into the execution log, and counts reads.
type StateProxy struct {
	*state.StateDB
	L     *Log
	Reads uint64
	// ReadCap > 0: panic with ReadLimitPanic once (Reads-ReadMark) exceeds it.
	ReadCap  uint64
	ReadMark uint64
	Quiet    bool // do not log (still counts)
}

func NewStateProxy(s *state.StateDB, l *Log) *StateProxy { return &StateProxy{StateDB: s, L: l} }

func (p *StateProxy) read() {
	p.Reads++
	if p.ReadCap > 0 && p.Reads-p.ReadMark > p.ReadCap {
		panic(ReadLimitPanic{p.Reads - p.ReadMark})
	}
}

func (p *StateProxy) mut(e Event) {
	if p.Quiet {
		return
	}
	e.K = KMut
	p.L.add(e)
}

func (p *StateProxy) CreateAccount(a common.Address) {
	p.mut(Event{Mut: MCreateAccount, Addr: a})
	p.StateDB.CreateAccount(a)
}
func (p *StateProxy) SubBalance(a common.Address, v *big.Int) {
	p.mut(Event{Mut: MSubBalance, Addr: a, Amount: cpBig(v)})
	p.StateDB.SubBalance(a, v)
}
func (p *StateProxy) AddBalance(a common.Address, v *big.Int) {
	p.mut(Event{Mut: MAddBalance, Addr: a, Amount: cpBig(v)})
	p.StateDB.AddBalance(a, v)
}
func (p *StateProxy) GetBalance(a common.Address) *big.Int { p.read(); return p.StateDB.GetBalance(a) }
func (p *StateProxy) GetNonce(a common.Address) uint64     { p.read(); return p.StateDB.GetNonce(a) }
func (p *StateProxy) SetNonce(a common.Address, n uint64) {
	p.mut(Event{Mut: MSetNonce, Addr: a, U64: n})
	p.StateDB.SetNonce(a, n)
}
func (p *StateProxy) GetCodeHash(a common.Address) common.Hash {
	p.read()
	return p.StateDB.GetCodeHash(a)
}
func (p *StateProxy) GetCode(a common.Address) []byte { p.read(); return p.StateDB.GetCode(a) }
func (p *StateProxy) SetCode(a common.Address, c []byte) {
	p.mut(Event{Mut: MSetCode, Addr: a, Bytes: cpBytes(c)})
	p.StateDB.SetCode(a, c)
}
func (p *StateProxy) GetCodeSize(a common.Address) int { p.read(); return p.StateDB.GetCodeSize(a) }
func (p *StateProxy) AddRefund(g uint64) {
	p.mut(Event{Mut: MAddRefund, U64: g})
	p.StateDB.AddRefund(g)
}
func (p *StateProxy) SubRefund(g uint64) {
	p.mut(Event{Mut: MSubRefund, U64: g})
	p.StateDB.SubRefund(g)
}
func (p *StateProxy) GetCommittedState(a common.Address, k common.Hash) common.Hash {
	p.read()
	return p.StateDB.GetCommittedState(a, k)
}
func (p *StateProxy) GetState(a common.Address, k common.Hash) common.Hash {
	p.read()
	return p.StateDB.GetState(a, k)
}
func (p *StateProxy) SetState(a common.Address, k, v common.Hash) {
	p.mut(Event{Mut: MSetState, Addr: a, Key: k, Val: v})
	p.StateDB.SetState(a, k, v)
}
func (p *StateProxy) GetTransientState(a common.Address, k common.Hash) common.Hash {
	p.read()
	return p.StateDB.GetTransientState(a, k)
}
func (p *StateProxy) SetTransientState(a common.Address, k, v common.Hash) {
	p.mut(Event{Mut: MSetTransient, Addr: a, Key: k, Val: v})
	p.StateDB.SetTransientState(a, k, v)
}
func (p *StateProxy) Suicide(a common.Address) bool {
	p.mut(Event{Mut: MSuicide, Addr: a})
	return p.StateDB.Suicide(a)
}
func (p *StateProxy) HasSuicided(a common.Address) bool { p.read(); return p.StateDB.HasSuicided(a) }
func (p *StateProxy) Exist(a common.Address) bool       { p.read(); return p.StateDB.Exist(a) }
func (p *StateProxy) Empty(a common.Address) bool       { p.read(); return p.StateDB.Empty(a) }
func (p *StateProxy) AddAddressToAccessList(a common.Address) {
	p.mut(Event{Mut: MAccessAddr, Addr: a})
	p.StateDB.AddAddressToAccessList(a)
}
func (p *StateProxy) AddSlotToAccessList(a common.Address, s common.Hash) {
	p.mut(Event{Mut: MAccessSlot, Addr: a, Key: s})
	p.StateDB.AddSlotToAccessList(a, s)
}
func (p *StateProxy) RevertToSnapshot(id int) {
	if !p.Quiet {
		p.L.add(Event{K: KRevert, SnapID: id})
	}
	p.StateDB.RevertToSnapshot(id)
}
func (p *StateProxy) Snapshot() int {
	id := p.StateDB.Snapshot()
	if !p.Quiet {
		p.L.add(Event{K: KSnapshot, SnapID: id})
	}
	return id
}
func (p *StateProxy) AddLog(l *types.Log) {
	cp := *l
	cp.Topics = append([]common.Hash{}, l.Topics...)
	cp.Data = cpBytes(l.Data)
	p.mut(Event{Mut: MAddLog, Addr: l.Address, Log: &cp})
	p.StateDB.AddLog(l)
}
func (p *StateProxy) AddPreimage(h common.Hash, b []byte) {
	p.mut(Event{Mut: MAddPreimage, Key: h})
	p.StateDB.AddPreimage(h, b)
}
