package harness

import (
	"bytes"
	"encoding/hex"
	"fmt"
	"sort"

	"github.com/ethereum/go-ethereum/common"
	"github.com/ethereum/go-ethereum/core/state"
)

// LogRec is a canonical emitted log.
type LogRec struct {
	Addr   common.Address
	Topics []common.Hash
	Data   []byte
}

// Outcome is everything a transaction's result consists of.
type Outcome struct {
	Ret      []byte
	Err      string
	Gas      uint64
	Addr     common.Address
	Panic    string
	Logs     []LogRec
	Refund   uint64
	Suicided []common.Address
	Root     common.Hash
	Dump     map[string]string // filled lazily for diagnostics
}

// CollectOutcome finalises the state and summarises the result. addrs are the
// addresses whose self-destruct flag is sampled before finalisation.
func CollectOutcome(db *state.StateDB, res InvokeResult, eip158 bool, addrs []common.Address) Outcome {
	o := Outcome{Ret: res.Ret, Err: res.ErrClass, Gas: res.Gas, Addr: res.Addr, Panic: res.Panic}
	for _, l := range db.Logs() {
		o.Logs = append(o.Logs, LogRec{Addr: l.Address, Topics: append([]common.Hash{}, l.Topics...), Data: cpBytes(l.Data)})
	}
	o.Refund = db.GetRefund()
	for _, a := range addrs {
		if db.HasSuicided(a) {
			o.Suicided = append(o.Suicided, a)
		}
	}
	o.Root = db.IntermediateRoot(eip158)
	return o
}

// DumpAccounts renders per-account content (diagnostics when roots differ).
func DumpAccounts(db *state.StateDB, addrs []common.Address) map[string]string {
	out := map[string]string{}
	for _, a := range addrs {
		if !db.Exist(a) {
			out[a.Hex()] = "<absent>"
			continue
		}
		s := fmt.Sprintf("bal=%v nonce=%d codehash=%x", db.GetBalance(a), db.GetNonce(a), db.GetCodeHash(a).Bytes()[:6])
		for i := 0; i < 10; i++ {
			v := db.GetState(a, HashU(uint64(i)))
			if v != (common.Hash{}) {
				s += fmt.Sprintf(" s%d=%s", i, hex.EncodeToString(bytes.TrimLeft(v[:], "\x00")))
			}
		}
		out[a.Hex()] = s
	}
	return out
}

// DiffOutcome lists the differences between two outcomes.
func DiffOutcome(a, b Outcome) []string {
	var d []string
	if a.Panic != b.Panic {
		d = append(d, fmt.Sprintf("panic: %q vs %q", a.Panic, b.Panic))
	}
	if a.Err != b.Err {
		d = append(d, fmt.Sprintf("error class: %q vs %q", a.Err, b.Err))
	}
	if !bytes.Equal(a.Ret, b.Ret) {
		d = append(d, fmt.Sprintf("return data: %x vs %x", trunc(a.Ret), trunc(b.Ret)))
	}
	if a.Gas != b.Gas {
		d = append(d, fmt.Sprintf("leftover gas: %d vs %d", a.Gas, b.Gas))
	}
	if a.Addr != b.Addr {
		d = append(d, fmt.Sprintf("created address: %s vs %s", a.Addr, b.Addr))
	}
	if a.Refund != b.Refund {
		d = append(d, fmt.Sprintf("refund: %d vs %d", a.Refund, b.Refund))
	}
	if len(a.Logs) != len(b.Logs) {
		d = append(d, fmt.Sprintf("log count: %d vs %d", len(a.Logs), len(b.Logs)))
	} else {
		for i := range a.Logs {
			x, y := a.Logs[i], b.Logs[i]
			if x.Addr != y.Addr || !bytes.Equal(x.Data, y.Data) || fmt.Sprint(x.Topics) != fmt.Sprint(y.Topics) {
				d = append(d, fmt.Sprintf("log %d differs: %v vs %v", i, x, y))
				break
			}
		}
	}
	if fmt.Sprint(a.Suicided) != fmt.Sprint(b.Suicided) {
		d = append(d, fmt.Sprintf("self-destructs: %v vs %v", a.Suicided, b.Suicided))
	}
	if a.Root != b.Root {
		d = append(d, fmt.Sprintf("state root: %s vs %s", a.Root.Hex(), b.Root.Hex()))
		if a.Dump != nil && b.Dump != nil {
			keys := map[string]bool{}
			for k := range a.Dump {
				keys[k] = true
			}
			for k := range b.Dump {
				keys[k] = true
			}
			ks := make([]string, 0, len(keys))
			for k := range keys {
				ks = append(ks, k)
			}
			sort.Strings(ks)
			for _, k := range ks {
				if a.Dump[k] != b.Dump[k] {
					d = append(d, fmt.Sprintf("  %s: %s vs %s", k, a.Dump[k], b.Dump[k]))
				}
			}
		}
	}
	return d
}

// TouchedAddrs collects every address appearing in a log (plus the world's).
func TouchedAddrs(w *World, logs ...*Log) []common.Address {
	seen := map[common.Address]bool{}
	var out []common.Address
	add := func(a common.Address) {
		if !seen[a] {
			seen[a] = true
			out = append(out, a)
		}
	}
	for _, a := range w.Accts {
		add(a.Addr)
	}
	add(Nobody)
	add(Coinbase)
	for _, l := range logs {
		if l == nil {
			continue
		}
		for i := range l.Events {
			e := &l.Events[i]
			switch e.K {
			case KStart, KEnter:
				add(e.From)
				add(e.To)
			case KReturn:
				if e.Addr != (common.Address{}) {
					add(e.Addr)
				}
			case KMut:
				add(e.Addr)
			}
		}
	}
	sort.Slice(out, func(i, j int) bool { return bytes.Compare(out[i][:], out[j][:]) < 0 })
	return out
}
