package harness

import (
	"context"
	"encoding/json"
	"fmt"
	"github.com/ethereum/go-ethereum/consensus"
	"math/big"
	"runtime/debug"

	acore "github.com/artela-network/artela-evm/core"
	avm "github.com/artela-network/artela-evm/vm"
	atypes "github.com/artela-network/aspect-core/types"
	"github.com/ethereum/go-ethereum/common"
	ethcore "github.com/ethereum/go-ethereum/core"
	"github.com/ethereum/go-ethereum/core/state"
	"github.com/ethereum/go-ethereum/core/types"
	evm "github.com/ethereum/go-ethereum/core/vm"
	"github.com/ethereum/go-ethereum/crypto"
	"github.com/ethereum/go-ethereum/params"
	"github.com/holiman/uint256"
	"google.golang.org/protobuf/proto"
)

// Entry point kinds.
type Entry int

const (
	ECall Entry = iota
	ECallCode
	EDelegateCall
	EStaticCall
	ECreate
	ECreate2
)

var entryNames = []string{"Call", "CallCode", "DelegateCall", "StaticCall", "Create", "Create2"}

func (e Entry) String() string { return entryNames[e] }

// EnvSpec is the block-level configuration.
type EnvSpec struct {
	Fork      Fork
	ExtraEips []int
	// BerlinAt, when non-zero with Fork < Berlin, schedules Berlin (and nothing later) at that block
	// number: one EVM object can then be moved across the fork with SetBlockNumber.
	BerlinAt uint64
	// Number is the block number of the execution (0: block 100).
	Number uint64
	// ShareEips hands ExtraEips to the EVM as it is (hosts pass one vm.Config to every EVM they build) instead of a copy.
	ShareEips bool
}

// TxSpec is one top-level invocation.
type TxSpec struct {
	Entry      Entry
	From       common.Address
	To         common.Address
	Input      []byte
	Gas        uint64
	Value      *big.Int
	Salt       *uint256.Int
	AccessList types.AccessList
	NoPrepare  bool // skip the per-transaction Prepare (follow-up internal calls)
}

// InvokeResult is what an entry point handed back.
type InvokeResult struct {
	Ret      []byte
	Gas      uint64
	Err      error
	ErrClass string
	Addr     common.Address
	Panic    string // non-empty when a Go panic escaped the entry point
	PanicStk string
}

var blockRandom = common.HexToHash("0x7261706e6461303030303030303030303030303030303030303030303030aabb")

func blockNumber() *big.Int { return big.NewInt(100) }

func getHash(n uint64) common.Hash {
	return crypto.Keccak256Hash([]byte(fmt.Sprintf("block-%d", n)))
}

func forkBlockCtx(f Fork, l *Log) avm.BlockContext {
	bc := avm.BlockContext{
		CanTransfer: acore.CanTransfer,
		Transfer: func(db avm.StateDB, from, to common.Address, amt *big.Int) {
			var e Event
			if l != nil {
				e = Event{K: KTransfer, From: from, To: to, Amount: cpBig(amt)}
				e.Bal[0], e.Bal[1] = cpBig(db.GetBalance(from)), cpBig(db.GetBalance(to))
			}
			acore.Transfer(db, from, to, amt)
			if l != nil {
				e.Bal[2], e.Bal[3] = cpBig(db.GetBalance(from)), cpBig(db.GetBalance(to))
				l.add(e)
			}
		},
		GetHash:     getHash,
		Coinbase:    Coinbase,
		GasLimit:    30_000_000,
		BlockNumber: blockNumber(),
		Time:        1_700_000_000,
		Difficulty:  big.NewInt(0x20000),
		BaseFee:     big.NewInt(7),
	}
	if f.IsMergeOrLater() {
		r := blockRandom
		bc.Random = &r
		bc.Difficulty = big.NewInt(0)
	}
	return bc
}

func refBlockCtx(f Fork) evm.BlockContext {
	bc := evm.BlockContext{
		CanTransfer: ethcore.CanTransfer,
		Transfer:    ethcore.Transfer,
		GetHash:     getHash,
		Coinbase:    Coinbase,
		GasLimit:    30_000_000,
		BlockNumber: blockNumber(),
		Time:        1_700_000_000,
		Difficulty:  big.NewInt(0x20000),
		BaseFee:     big.NewInt(7),
	}
	if f.IsMergeOrLater() {
		r := blockRandom
		bc.Random = &r
		bc.Difficulty = big.NewInt(0)
	}
	return bc
}

// ForkOpts configures a fork session.
type ForkOpts struct {
	Debug      bool // attach the recorder as Config.Tracer
	RecSteps   bool // copy stack/memory/return data at each step
	LightMem   bool
	JoinPoints bool
	Plan       *AspectPlan
	Alloc      bool
	NoProxy    bool // hand the raw StateDB to the VM
	// Shared, when set, supplies objects that a host shares between EVM instances working on the same block:
	// the block context (its big.Int fields are shared pointers) and the chain configuration.
	Shared *SharedHost
	// NoBaseFee builds the EVM the way a gas-less call does: Config.NoBaseFee with a zero gas price.
	NoBaseFee bool
	Tee       avm.EVMLogger // additional tracer fed the same callbacks (after the recorder)
	OnlyTee   bool          // attach Tee alone (no recorder) as Config.Tracer
}

// ForkSession is one EVM instance of the code under test over one state.
type ForkSession struct {
	X     *Exec
	L     *Log
	DB    *state.StateDB
	Proxy *StateProxy
	EVM   *avm.EVM
	Rec   *ForkRecorder
	Ctx   context.Context
	Env   EnvSpec
	Cfg   *params.ChainConfig
	Rules params.Rules
}

func gasPrice() *big.Int { return big.NewInt(11) }

// NewForkSession builds the host exactly as an embedding chain does.
func NewForkSession(w *World, env EnvSpec, o ForkOpts) *ForkSession {
	InitHost()
	s := &ForkSession{Env: env}
	s.L = &Log{RecSteps: o.RecSteps, LightMem: o.LightMem}
	s.X = &Exec{L: s.L, Plan: o.Plan}
	s.Ctx = WithExec(context.Background(), s.X)
	s.DB = w.NewState()
	s.Proxy = NewStateProxy(s.DB, s.L)
	s.Cfg = ChainConfig(env.Fork)
	if env.BerlinAt != 0 && env.Fork < Berlin {
		s.Cfg.BerlinBlock = new(big.Int).SetUint64(env.BerlinAt)
	}
	bc := forkBlockCtx(env.Fork, s.L)
	if env.Number != 0 {
		bc.BlockNumber = new(big.Int).SetUint64(env.Number)
	}
	if o.Shared != nil {
		bc = o.Shared.BC // (a struct copy, as hosts pass it: the pointers inside are shared)
		s.Cfg = o.Shared.Cfg
	}
	s.Rules = s.Cfg.Rules(bc.BlockNumber, bc.Random != nil, bc.Time)
	s.Rec = &ForkRecorder{L: s.L, Proxy: s.Proxy, Alloc: o.Alloc}
	cfg := avm.Config{ExtraEips: append([]int(nil), env.ExtraEips...), NoBaseFee: o.NoBaseFee}
	if env.ShareEips {
		cfg.ExtraEips = env.ExtraEips
	}
	if o.Debug {
		switch {
		case o.OnlyTee:
			cfg.Tracer = o.Tee
		case o.Tee != nil:
			cfg.Tracer = &teeTracer{a: s.Rec, b: o.Tee}
		default:
			cfg.Tracer = s.Rec
		}
	}
	to := common.Address{}
	msg := &ethcore.Message{From: Sender, To: &to, Value: new(big.Int), GasLimit: 10_000_000, GasPrice: gasPrice(), GasFeeCap: gasPrice(), GasTipCap: gasPrice(), Data: []byte{}}
	txc := avm.TxContext{Origin: Origin, GasPrice: gasPrice(), Message: msg}
	if o.NoBaseFee {
		msg.GasPrice, msg.GasFeeCap, msg.GasTipCap = new(big.Int), new(big.Int), new(big.Int)
		txc.GasPrice = new(big.Int)
	}
	var sdb avm.StateDB = s.Proxy
	if o.NoProxy {
		sdb = s.DB
	}
	s.EVM = avm.NewEVM(bc, txc, sdb, s.Cfg, cfg)
	s.EVM.IsExecuteJP = o.JoinPoints
	return s
}

// SetBlockNumber moves the same EVM object to another block (EVM.SetBlockContext), as a chain does
// when it reuses an EVM across blocks; the rules used for the per-transaction Prepare follow.
func (s *ForkSession) SetBlockNumber(n uint64) {
	bc := forkBlockCtx(s.Env.Fork, s.L)
	bc.BlockNumber = new(big.Int).SetUint64(n)
	s.EVM.SetBlockContext(bc)
	s.Rules = s.Cfg.Rules(bc.BlockNumber, bc.Random != nil, bc.Time)
}

// Invoke runs one top-level entry point under recover.
func (s *ForkSession) Invoke(tx TxSpec) (res InvokeResult) {
	value := tx.Value
	if value == nil {
		value = new(big.Int)
	}
	if !tx.NoPrepare {
		var dst *common.Address
		if tx.Entry != ECreate && tx.Entry != ECreate2 {
			t := tx.To
			dst = &t
		}
		s.Proxy.Quiet = true
		s.DB.Prepare(s.Rules, tx.From, Coinbase, dst, avm.ActivePrecompiles(s.Rules), tx.AccessList)
		s.Proxy.Quiet = false
	}
	s.L.add(Event{K: KInvoke, Typ: byte(tx.Entry), From: tx.From, To: tx.To, Gas: tx.Gas, Value: cpBig(value), Input: cpBytes(tx.Input)})
	defer func() {
		if r := recover(); r != nil {
			if _, ok := r.(ReadLimitPanic); ok {
				res.Panic = "READLIMIT"
			} else {
				res.Panic = fmt.Sprint(r)
			}
			res.PanicStk = string(debug.Stack())
		}
		res.ErrClass = ErrClass(res.Err)
		e := Event{K: KReturn, Gas: res.Gas, Output: cpBytes(res.Ret), Err: res.ErrClass, ErrVal: res.Err, Addr: res.Addr}
		if res.Err != nil {
			e.ErrText = res.Err.Error()
		}
		s.L.add(e)
	}()
	input := tx.Input
	switch tx.Entry {
	case ECall:
		res.Ret, res.Gas, res.Err = s.EVM.Call(s.Ctx, avm.AccountRef(tx.From), tx.To, input, tx.Gas, value)
	case ECallCode:
		caller := avm.NewContract(avm.AccountRef(Origin), avm.AccountRef(tx.From), value, tx.Gas)
		res.Ret, res.Gas, res.Err = s.EVM.CallCode(s.Ctx, caller, tx.To, input, tx.Gas, value)
	case EDelegateCall:
		caller := avm.NewContract(avm.AccountRef(Origin), avm.AccountRef(tx.From), value, tx.Gas)
		res.Ret, res.Gas, res.Err = s.EVM.DelegateCall(s.Ctx, caller, tx.To, input, tx.Gas)
	case EStaticCall:
		caller := avm.NewContract(avm.AccountRef(Origin), avm.AccountRef(tx.From), value, tx.Gas)
		res.Ret, res.Gas, res.Err = s.EVM.StaticCall(s.Ctx, caller, tx.To, input, tx.Gas)
	case ECreate:
		res.Ret, res.Addr, res.Gas, res.Err = s.EVM.Create(s.Ctx, avm.AccountRef(tx.From), input, tx.Gas, value)
	case ECreate2:
		salt := tx.Salt
		if salt == nil {
			salt = uint256.NewInt(0)
		}
		res.Ret, res.Addr, res.Gas, res.Err = s.EVM.Create2(s.Ctx, avm.AccountRef(tx.From), input, tx.Gas, value, salt)
	}
	return
}

// RefSession is the go-ethereum v1.12.0 reference over an identical state.
type RefSession struct {
	L     *Log
	DB    *state.StateDB
	EVM   *evm.EVM
	Rec   *RefRecorder
	Env   EnvSpec
	Rules params.Rules
}

// RefOpts configures a reference session.
type RefOpts struct {
	Debug    bool
	RecSteps bool
	LightMem bool
	Tee      evm.EVMLogger
	OnlyTee  bool
}

func NewRefSession(w *World, env EnvSpec, o RefOpts) *RefSession {
	s := &RefSession{Env: env}
	s.L = &Log{RecSteps: o.RecSteps, LightMem: o.LightMem}
	s.DB = w.NewState()
	cfgc := ChainConfig(env.Fork)
	bc := refBlockCtx(env.Fork)
	if env.Number != 0 {
		bc.BlockNumber = new(big.Int).SetUint64(env.Number)
	}
	s.Rules = cfgc.Rules(bc.BlockNumber, bc.Random != nil, bc.Time)
	s.Rec = &RefRecorder{L: s.L}
	cfg := evm.Config{ExtraEips: append([]int(nil), env.ExtraEips...)}
	if o.Debug {
		switch {
		case o.OnlyTee:
			cfg.Tracer = o.Tee
		case o.Tee != nil:
			cfg.Tracer = &refTee{a: s.Rec, b: o.Tee}
		default:
			cfg.Tracer = s.Rec
		}
	}
	txc := evm.TxContext{Origin: Origin, GasPrice: gasPrice()}
	s.EVM = evm.NewEVM(bc, txc, s.DB, cfgc, cfg)
	return s
}

func (s *RefSession) Invoke(tx TxSpec) (res InvokeResult) {
	value := tx.Value
	if value == nil {
		value = new(big.Int)
	}
	if !tx.NoPrepare {
		var dst *common.Address
		if tx.Entry != ECreate && tx.Entry != ECreate2 {
			t := tx.To
			dst = &t
		}
		s.DB.Prepare(s.Rules, tx.From, Coinbase, dst, evm.ActivePrecompiles(s.Rules), tx.AccessList)
	}
	s.L.add(Event{K: KInvoke, Typ: byte(tx.Entry), From: tx.From, To: tx.To, Gas: tx.Gas, Value: cpBig(value), Input: cpBytes(tx.Input)})
	defer func() {
		if r := recover(); r != nil {
			res.Panic = fmt.Sprint(r)
			res.PanicStk = string(debug.Stack())
		}
		res.ErrClass = ErrClass(res.Err)
		e := Event{K: KReturn, Gas: res.Gas, Output: cpBytes(res.Ret), Err: res.ErrClass, ErrVal: res.Err, Addr: res.Addr}
		if res.Err != nil {
			e.ErrText = res.Err.Error()
		}
		s.L.add(e)
	}()
	input := tx.Input
	switch tx.Entry {
	case ECall:
		res.Ret, res.Gas, res.Err = s.EVM.Call(evm.AccountRef(tx.From), tx.To, input, tx.Gas, value)
	case ECallCode:
		caller := evm.NewContract(evm.AccountRef(Origin), evm.AccountRef(tx.From), value, tx.Gas)
		res.Ret, res.Gas, res.Err = s.EVM.CallCode(caller, tx.To, input, tx.Gas, value)
	case EDelegateCall:
		caller := evm.NewContract(evm.AccountRef(Origin), evm.AccountRef(tx.From), value, tx.Gas)
		res.Ret, res.Gas, res.Err = s.EVM.DelegateCall(caller, tx.To, input, tx.Gas)
	case EStaticCall:
		caller := evm.NewContract(evm.AccountRef(Origin), evm.AccountRef(tx.From), value, tx.Gas)
		res.Ret, res.Gas, res.Err = s.EVM.StaticCall(caller, tx.To, input, tx.Gas)
	case ECreate:
		res.Ret, res.Addr, res.Gas, res.Err = s.EVM.Create(evm.AccountRef(tx.From), input, tx.Gas, value)
	case ECreate2:
		salt := tx.Salt
		if salt == nil {
			salt = uint256.NewInt(0)
		}
		res.Ret, res.Addr, res.Gas, res.Err = s.EVM.Create2(evm.AccountRef(tx.From), input, tx.Gas, value, salt)
	}
	return
}

// teeTracer feeds two fork tracers.
type teeTracer struct{ a, b avm.EVMLogger }

func (t *teeTracer) CaptureTxStart(g uint64) { t.a.CaptureTxStart(g); t.b.CaptureTxStart(g) }
func (t *teeTracer) CaptureTxEnd(g uint64)   { t.a.CaptureTxEnd(g); t.b.CaptureTxEnd(g) }
func (t *teeTracer) CaptureStart(env *avm.EVM, from, to common.Address, create bool, input []byte, gas uint64, value *big.Int) {
	t.a.CaptureStart(env, from, to, create, input, gas, value)
	t.b.CaptureStart(env, from, to, create, input, gas, value)
}
func (t *teeTracer) CaptureEnd(o []byte, g uint64, err error) {
	t.a.CaptureEnd(o, g, err)
	t.b.CaptureEnd(o, g, err)
}
func (t *teeTracer) CaptureEnter(typ avm.OpCode, from, to common.Address, input []byte, gas uint64, value *big.Int) {
	t.a.CaptureEnter(typ, from, to, input, gas, value)
	t.b.CaptureEnter(typ, from, to, input, gas, value)
}
func (t *teeTracer) CaptureExit(o []byte, g uint64, err error) {
	t.a.CaptureExit(o, g, err)
	t.b.CaptureExit(o, g, err)
}
func (t *teeTracer) CaptureState(pc uint64, op avm.OpCode, gas, cost uint64, scope *avm.ScopeContext, rData []byte, depth int, err error) {
	t.a.CaptureState(pc, op, gas, cost, scope, rData, depth, err)
	t.b.CaptureState(pc, op, gas, cost, scope, rData, depth, err)
}
func (t *teeTracer) CaptureFault(pc uint64, op avm.OpCode, gas, cost uint64, scope *avm.ScopeContext, depth int, err error) {
	t.a.CaptureFault(pc, op, gas, cost, scope, depth, err)
	t.b.CaptureFault(pc, op, gas, cost, scope, depth, err)
}

type refTee struct{ a, b evm.EVMLogger }

func (t *refTee) CaptureTxStart(g uint64) { t.a.CaptureTxStart(g); t.b.CaptureTxStart(g) }
func (t *refTee) CaptureTxEnd(g uint64)   { t.a.CaptureTxEnd(g); t.b.CaptureTxEnd(g) }
func (t *refTee) CaptureStart(env *evm.EVM, from, to common.Address, create bool, input []byte, gas uint64, value *big.Int) {
	t.a.CaptureStart(env, from, to, create, input, gas, value)
	t.b.CaptureStart(env, from, to, create, input, gas, value)
}
func (t *refTee) CaptureEnd(o []byte, g uint64, err error) {
	t.a.CaptureEnd(o, g, err)
	t.b.CaptureEnd(o, g, err)
}
func (t *refTee) CaptureEnter(typ evm.OpCode, from, to common.Address, input []byte, gas uint64, value *big.Int) {
	t.a.CaptureEnter(typ, from, to, input, gas, value)
	t.b.CaptureEnter(typ, from, to, input, gas, value)
}
func (t *refTee) CaptureExit(o []byte, g uint64, err error) {
	t.a.CaptureExit(o, g, err)
	t.b.CaptureExit(o, g, err)
}
func (t *refTee) CaptureState(pc uint64, op evm.OpCode, gas, cost uint64, scope *evm.ScopeContext, rData []byte, depth int, err error) {
	t.a.CaptureState(pc, op, gas, cost, scope, rData, depth, err)
	t.b.CaptureState(pc, op, gas, cost, scope, rData, depth, err)
}
func (t *refTee) CaptureFault(pc uint64, op evm.OpCode, gas, cost uint64, scope *evm.ScopeContext, depth int, err error) {
	t.a.CaptureFault(pc, op, gas, cost, scope, depth, err)
	t.b.CaptureFault(pc, op, gas, cost, scope, depth, err)
}

func (t *teeTracer) CaptureAspectEnter(jp atypes.JoinPointRunType, from, to, aspectId common.Address, input []byte, gas uint64, value *big.Int, execCtx proto.Message) {
	if l, ok := t.a.(atypes.AspectLogger); ok {
		l.CaptureAspectEnter(jp, from, to, aspectId, input, gas, value, execCtx)
	}
	if l, ok := t.b.(atypes.AspectLogger); ok {
		l.CaptureAspectEnter(jp, from, to, aspectId, input, gas, value, execCtx)
	}
}

func (t *teeTracer) CaptureAspectExit(jp atypes.JoinPointRunType, result *atypes.AspectExecutionResult) {
	if l, ok := t.a.(atypes.AspectLogger); ok {
		l.CaptureAspectExit(jp, result)
	}
	if l, ok := t.b.(atypes.AspectLogger); ok {
		l.CaptureAspectExit(jp, result)
	}
}

// CountingChain is a header chain of the given height generated on demand; every header lookup is counted.
type CountingChain struct {
	Height uint64
	Reads  uint64
}

func chainHash(n uint64) common.Hash { return crypto.Keccak256Hash([]byte(fmt.Sprintf("hdr-%d", n))) }

// Header returns block n's header.
func (c *CountingChain) Header(n uint64) *types.Header { return c.header(n) }

func (c *CountingChain) header(n uint64) *types.Header {
	h := &types.Header{Number: new(big.Int).SetUint64(n), Difficulty: big.NewInt(1), Time: 1_700_000_000}
	if n > 0 {
		h.ParentHash = chainHash(n - 1)
	}
	return h
}

func (c *CountingChain) Engine() consensus.Engine { return nil }
func (c *CountingChain) GetHeader(hash common.Hash, n uint64) *types.Header {
	c.Reads++
	if n > c.Height || hash != chainHash(n) {
		return nil
	}
	return c.header(n)
}

// UseChainHashes replaces the session's BLOCKHASH source by the repository's own core.GetHashFn walking a
// counted header chain whose current block is `height` (as the embedding chain wires it).
func (s *ForkSession) UseChainHashes(height uint64) *CountingChain {
	c := &CountingChain{Height: height}
	bc := forkBlockCtx(s.Env.Fork, s.L)
	bc.BlockNumber = new(big.Int).SetUint64(height)
	bc.GetHash = acore.GetHashFn(c.header(height), c)
	s.EVM.SetBlockContext(bc)
	return c
}

// SharedHost holds what a host shares between the EVM instances it runs against one block.
type SharedHost struct {
	BC  avm.BlockContext
	Cfg *params.ChainConfig
	sig string
}

// NewSharedHost builds the shared objects for a fork (no per-session transfer log: the transfer function is the
// plain core.Transfer).
func NewSharedHost(f Fork) *SharedHost {
	sh := &SharedHost{BC: forkBlockCtx(f, nil), Cfg: ChainConfig(f)}
	sh.sig = sh.Signature()
	return sh
}

// Signature renders every value reachable from the shared objects.
func (sh *SharedHost) Signature() string {
	j, _ := json.Marshal(sh.Cfg)
	r := "<nil>"
	if sh.BC.Random != nil {
		r = sh.BC.Random.Hex()
	}
	return fmt.Sprintf("number=%v time=%d difficulty=%v basefee=%v gaslimit=%d coinbase=%s random=%s cfg=%s", sh.BC.BlockNumber, sh.BC.Time, sh.BC.Difficulty, sh.BC.BaseFee, sh.BC.GasLimit, sh.BC.Coinbase.Hex(), r, j)
}

// Changed reports what differs from the values at construction ("" when nothing does).
func (sh *SharedHost) Changed() string {
	if now := sh.Signature(); now != sh.sig {
		return "was: " + sh.sig + "\nnow: " + now
	}
	return ""
}
