package harness

import (
	"context"
	"fmt"
	"sync"

	"github.com/artela-network/aspect-core/djpm"
	atypes "github.com/artela-network/aspect-core/types"
	"github.com/ethereum/go-ethereum/common"
)

// Binding is one Aspect bound to a contract's join point.
type Binding struct {
	AspectID common.Address
	Loops    uint32
	Trap     bool
}

// AspectPlan says which Aspects are bound where and which firings fail.
type AspectPlan struct {
	Pre, Post map[common.Address][]Binding
	// FailAt injects a provider error at the given firing sequence number
	// (firings are numbered in order of GetTxBondAspects calls, pre and post alike).
	FailAt map[int]error
	// OnFiring is called at every firing before the provider answers.
	OnFiring func(x *Exec, firing int, contract common.Address, pointcut string)
}

// Exec is the per-execution host-side context, carried in context.Context so
// that the process-global provider and callbacks can find it.
type Exec struct {
	L       *Log
	Plan    *AspectPlan
	Firings int

	// Artela precompile callbacks
	CtxGet    func(aspectId common.Address, key string) ([]byte, error)
	CtxSet    func(aspectId common.Address, key string, value []byte) error
	JITSender func(h common.Hash) (common.Address, error)
}

type execKey struct{}

func WithExec(ctx context.Context, x *Exec) context.Context {
	return context.WithValue(ctx, execKey{}, x)
}

func ExecFrom(ctx context.Context) *Exec {
	if ctx == nil {
		return nil
	}
	x, _ := ctx.Value(execKey{}).(*Exec)
	return x
}

var (
	aspectCodeMu    sync.Mutex
	aspectCodeCache = map[[2]uint32][]byte{}
)

func aspectCode(loops uint32, trap bool) []byte {
	k := [2]uint32{loops, 0}
	if trap {
		k[1] = 1
	}
	aspectCodeMu.Lock()
	defer aspectCodeMu.Unlock()
	if c, ok := aspectCodeCache[k]; ok {
		return c
	}
	c := BuildAspect(loops, trap)
	aspectCodeCache[k] = c
	return c
}

type globalProvider struct{}

func (globalProvider) GetTxBondAspects(ctx context.Context, contract common.Address, pc atypes.PointCut) ([]*atypes.AspectCode, error) {
	x := ExecFrom(ctx)
	if x == nil {
		return nil, nil
	}
	firing := x.Firings
	x.Firings++
	ev := x.L.add(Event{K: KProvider, Firing: firing, Addr: contract, Pointcut: string(pc)})
	idx := ev.Seq
	if x.Plan == nil {
		return nil, nil
	}
	if x.Plan.OnFiring != nil {
		x.Plan.OnFiring(x, firing, contract, string(pc))
	}
	if err, ok := x.Plan.FailAt[firing]; ok && err != nil {
		x.L.Events[idx].ErrText = err.Error()
		x.L.Events[idx].ErrVal = err
		return nil, err
	}
	var bs []Binding
	switch pc {
	case atypes.PRE_CONTRACT_CALL_METHOD:
		bs = x.Plan.Pre[contract]
	case atypes.POST_CONTRACT_CALL_METHOD:
		bs = x.Plan.Post[contract]
	}
	var out []*atypes.AspectCode
	for _, b := range bs {
		out = append(out, &atypes.AspectCode{AspectId: b.AspectID.Hex(), Version: 1, Code: aspectCode(b.Loops, b.Trap)})
	}
	x.L.Events[idx].U64 = uint64(len(out))
	return out, nil
}

func (globalProvider) GetAccountVerifiers(ctx context.Context, a common.Address) ([]*atypes.AspectCode, error) {
	return nil, nil
}

func (globalProvider) GetLatestBlock() int64 { return 100 }

var hostOnce sync.Once

// InitHost installs the process-global Aspect provider, runtime pool and
// context callbacks exactly as an embedding chain does.
func InitHost() {
	hostOnce.Do(func() {
		logger := &atypes.NoOpsLogger{}
		djpm.NewAspect(globalProvider{}, logger)
		atypes.InitRuntimePool(context.Background(), logger, 32, 32)
		atypes.IsCommit = func(ctx context.Context) bool { return true }
		atypes.GetAspectContext = func(ctx context.Context, aspectId common.Address, key string) ([]byte, error) {
			x := ExecFrom(ctx)
			if x == nil {
				return nil, fmt.Errorf("no exec context")
			}
			x.L.add(Event{K: KCtxGet, Addr: aspectId, CtxKey: key})
			if x.CtxGet != nil {
				return x.CtxGet(aspectId, key)
			}
			return nil, nil
		}
		atypes.SetAspectContext = func(ctx context.Context, aspectId common.Address, key string, value []byte) error {
			x := ExecFrom(ctx)
			if x == nil {
				return fmt.Errorf("no exec context")
			}
			x.L.add(Event{K: KCtxSet, Addr: aspectId, CtxKey: key, Bytes: cpBytes(value)})
			if x.CtxSet != nil {
				return x.CtxSet(aspectId, key, value)
			}
			return nil
		}
		atypes.JITSenderAspectByContext = func(ctx context.Context, h common.Hash) (common.Address, error) {
			x := ExecFrom(ctx)
			if x == nil {
				return common.Address{}, fmt.Errorf("no exec context")
			}
			x.L.add(Event{K: KJITSender, Key: h})
			if x.JITSender != nil {
				return x.JITSender(h)
			}
			return common.Address{}, nil
		}
	})
}
