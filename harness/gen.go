package harness

import (
	"github.com/ethereum/go-ethereum/common"
	"github.com/holiman/uint256"
)

// GenOpts steers the gadget-based program generator.
type GenOpts struct {
	NContracts  int  // number of contracts in the world (call targets)
	NoGasOp     bool // gas-insensitive: never read GAS, never pass "all gas" via GAS
	NoCodeIntro bool // code-insensitive: no CODECOPY/CODESIZE/EXTCODE* on contracts
	Cancun      bool // include TLOAD/TSTORE/MCOPY gadgets
	NoMcopy     bool // with Cancun: transient storage only (for the differential against upstream + EIP-1153)
	HugeMcopy   bool // MCOPY gadgets also draw boundary / huge operands
	TloadByte   byte // byte emitted for TLOAD (default 0x5c)
	TstoreByte  byte // byte emitted for TSTORE (default 0x5d)
	Artela      bool // include calls to 0x64..0x66
	NoCreate    bool
	NoSelfdestr bool
	NoInvalid   bool // avoid deliberately failing gadgets
	MaxGadgets  int
	CallBias    int // percent of gadgets that are calls (default 15)
	Push0       bool
	Extra       []func(g *Gen) // additional gadget emitters mixed in (journal ops etc.)
	ExtraBias   int            // percent
	Precompiles bool
	ReturnData  bool // RETURNDATASIZE/RETURNDATACOPY are available (Byzantium+)
}

// Gen is the generator state for one program.
type Gen struct {
	R    *RNG
	A    *Asm
	O    GenOpts
	Self int
}

func (g *Gen) op(b byte) {
	switch b {
	case TLOAD:
		if g.O.TloadByte != 0 {
			b = g.O.TloadByte
		}
	case TSTORE:
		if g.O.TstoreByte != 0 {
			b = g.O.TstoreByte
		}
	}
	g.A.Op(b)
}

func (g *Gen) smallOff() uint64 {
	switch g.R.Intn(6) {
	case 0:
		return 0
	case 1:
		return 32
	case 2:
		return uint64(g.R.Intn(96))
	case 3:
		return uint64(32 * g.R.Intn(8))
	case 4:
		return uint64(g.R.Intn(300))
	default:
		return uint64(64 + g.R.Intn(64))
	}
}

func (g *Gen) smallLen() uint64 {
	switch g.R.Intn(6) {
	case 0:
		return 0
	case 1:
		return 32
	case 2:
		return uint64(g.R.Intn(70))
	case 3:
		return Pick(g.R, []uint64{1, 3, 4, 5}) // (4: exactly a function selector)
	case 4:
		return 64
	default:
		return uint64(g.R.Intn(200))
	}
}

// mcopyOperand draws an MCOPY operand: mostly small, sometimes at a boundary or huge.
func (g *Gen) mcopyOperand(isLen bool) *uint256.Int {
	switch g.R.Intn(10) {
	case 0:
		return uint256.NewInt(0)
	case 1:
		return uint256.NewInt(uint64(31 + g.R.Intn(3)))
	case 2:
		return new(uint256.Int).Lsh(uint256.NewInt(1), uint(Pick(g.R, []int{16, 31, 32, 63, 64, 128, 255})))
	case 3:
		return new(uint256.Int).Not(uint256.NewInt(0))
	case 4:
		return uint256.NewInt(uint64(g.R.Intn(5000)))
	default:
		if isLen {
			return uint256.NewInt(g.smallLen())
		}
		return uint256.NewInt(g.smallOff())
	}
}

// sink consumes the top of stack.
func (g *Gen) sink() {
	switch g.R.Intn(10) {
	case 0, 1:
		g.A.PushU(uint64(g.R.Intn(8)))
		g.op(SSTORE)
	case 2, 3, 4, 5:
		g.A.PushU(g.smallOff())
		g.op(MSTORE)
	default:
		g.op(POP)
	}
}

func (g *Gen) target() common.Address {
	n := g.O.NContracts
	k := g.R.Intn(12)
	switch {
	case k < 6 && n > 0:
		return ContractAddr(g.R.Intn(n))
	case k == 6:
		return EOARich
	case k == 7:
		return Nobody
	case k == 8:
		if g.R.Bool() {
			return EmptyAcct
		}
		return EOAPoor
	case k == 9 && g.O.Precompiles:
		return common.BytesToAddress([]byte{byte(1 + g.R.Intn(9))})
	case k == 10 && g.O.Artela:
		return common.BytesToAddress([]byte{byte(100 + g.R.Intn(3))})
	case k == 11:
		return ContractAddr(g.Self)
	}
	if n > 0 {
		return ContractAddr(g.R.Intn(n))
	}
	return EOARich
}

var binOps = []byte{ADD, MUL, SUB, DIV, SDIV, MOD, SMOD, EXP, SIGNEXTEND, LT, GT, SLT, SGT, EQ, AND, OR, XOR, BYTE, SHL, SHR, SAR}
var envOps = []byte{ADDRESS, ORIGIN, CALLER, CALLVALUE, CALLDATASIZE, GASPRICE, RETURNDATASIZE, COINBASE, TIMESTAMP, NUMBER, DIFFICULTY, GASLIMIT, CHAINID, SELFBALANCE, BASEFEE, PC, MSIZE}

func (g *Gen) gArith() {
	switch g.R.Intn(8) {
	case 0:
		g.A.Push(g.R.Operand())
		g.op(Pick(g.R, []byte{NOT, ISZERO}))
	case 1:
		g.A.Push(g.R.Operand()).Push(g.R.Operand()).Push(g.R.Operand())
		g.op(Pick(g.R, []byte{ADDMOD, MULMOD}))
	default:
		g.A.Push(g.R.Operand()).Push(g.R.Operand())
		g.op(Pick(g.R, binOps))
	}
	g.sink()
}

func (g *Gen) gMem() {
	switch g.R.Intn(7) {
	case 0:
		g.A.Push(g.R.Operand()).PushU(g.smallOff())
		g.op(MSTORE)
	case 1:
		g.A.Push(g.R.Operand()).PushU(g.smallOff())
		g.op(MSTORE8)
	case 2:
		g.A.PushU(g.smallOff())
		g.op(MLOAD)
		g.sink()
	case 3:
		g.A.PushU(g.smallLen()).PushU(g.smallOff())
		g.op(KECCAK256)
		g.sink()
	case 4:
		g.op(MSIZE)
		g.sink()
	case 5:
		// larger expansion
		g.A.PushU(uint64(g.R.Intn(4096)))
		g.op(MLOAD)
		g.op(POP)
	case 6:
		if g.O.Cancun && !g.O.NoMcopy {
			if g.O.HugeMcopy && g.R.Chance(35) {
				g.A.Push(g.mcopyOperand(true)).Push(g.mcopyOperand(false)).Push(g.mcopyOperand(false))
			} else {
				g.A.PushU(g.smallLen()).PushU(g.smallOff()).PushU(g.smallOff())
			}
			g.op(MCOPY)
		} else {
			g.A.Push(g.R.Operand()).PushU(g.smallOff())
			g.op(MSTORE)
		}
	}
}

func (g *Gen) gEnv() {
	switch g.R.Intn(12) {
	case 0:
		g.A.PushAddr(g.target())
		g.op(BALANCE)
		g.sink()
	case 1:
		if g.O.NoCodeIntro {
			g.A.PushAddr(EOARich)
		} else if g.R.Chance(35) {
			g.A.PushAddr(Pick(g.R, []common.Address{EmptyAcct, EOAPoor, Nobody, common.BytesToAddress([]byte{byte(1 + g.R.Intn(9))}), {}}))
		} else {
			g.A.PushAddr(g.target())
		}
		g.op(Pick(g.R, []byte{EXTCODESIZE, EXTCODEHASH}))
		g.sink()
	case 2:
		switch g.R.Intn(3) {
		case 0:
			g.A.PushU(uint64(90 + g.R.Intn(15)))
		case 1: // relative to the current block: the 256-block window and its edges
			g.A.PushU(Pick(g.R, []uint64{0, 1, 2, 255, 256, 257, 258, 1000})).Op(NUMBER, SUB)
		default:
			g.A.PushU(Pick(g.R, []uint64{0, 1, 43, 255, 256, 257, 300}))
		}
		g.op(BLOCKHASH)
		g.sink()
	case 3:
		g.A.PushU(g.smallOff())
		g.op(CALLDATALOAD)
		g.sink()
	case 4:
		g.A.PushU(g.smallLen()).PushU(g.smallOff()).PushU(g.smallOff())
		g.op(CALLDATACOPY)
	case 5:
		if g.O.NoCodeIntro {
			g.op(CALLDATASIZE)
			g.sink()
			return
		}
		g.A.PushU(g.smallLen()).PushU(g.smallOff()).PushU(g.smallOff())
		g.op(CODECOPY)
	case 6:
		if g.O.NoCodeIntro {
			g.op(CALLER)
			g.sink()
			return
		}
		g.A.PushU(g.smallLen()).PushU(g.smallOff()).PushU(g.smallOff()).PushAddr(g.target())
		g.op(EXTCODECOPY)
	case 7:
		// RETURNDATACOPY within bounds only when size 0 (else may fault: allowed unless NoInvalid)
		if g.O.NoInvalid {
			g.A.PushU(0).PushU(0).PushU(g.smallOff())
		} else {
			g.A.PushU(uint64(g.R.Intn(40))).PushU(uint64(g.R.Intn(8))).PushU(g.smallOff())
		}
		g.op(RETURNDATACOPY)
	case 8:
		if g.O.NoGasOp {
			g.op(NUMBER)
		} else {
			g.op(GAS)
		}
		g.sink()
	case 9:
		if g.O.NoCodeIntro {
			g.op(ADDRESS)
		} else {
			g.op(CODESIZE)
		}
		g.sink()
	default:
		g.op(Pick(g.R, envOps))
		g.sink()
	}
}

func (g *Gen) gStorage() {
	slot := uint64(g.R.Intn(8))
	switch g.R.Intn(5) {
	case 0, 1:
		g.A.PushU(slot)
		g.op(SLOAD)
		g.sink()
	case 2:
		if g.O.Cancun {
			if g.R.Bool() {
				g.A.PushU(slot)
				g.op(TLOAD)
				g.sink()
			} else {
				g.A.Push(g.storeVal()).PushU(slot)
				g.op(TSTORE)
			}
			return
		}
		fallthrough
	default:
		g.A.Push(g.storeVal()).PushU(slot)
		g.op(SSTORE)
	}
}

func (g *Gen) storeVal() *uint256.Int {
	switch g.R.Intn(5) {
	case 0, 1:
		return uint256.NewInt(0)
	case 2:
		return uint256.NewInt(1)
	case 3:
		return uint256.NewInt(2)
	default:
		return g.R.Operand()
	}
}

// LogGadget is gLog for use as an Extra emitter (workloads that want more logs).
func LogGadget(g *Gen) { g.gLog() }

func (g *Gen) gLog() {
	n := g.R.Intn(5)
	for i := 0; i < n; i++ {
		g.A.Push(g.R.Operand())
	}
	if g.R.Chance(30) {
		// data range that starts inside the last word of memory and ends beyond it (memory grows by the instruction itself)
		g.A.Push(g.R.U256())
		g.op(MSIZE)
		g.op(MSTORE)
		g.A.PushU(uint64(1 + g.R.Intn(100))).PushU(uint64(1 + g.R.Intn(32)))
		g.op(MSIZE)
		g.op(SUB)
		g.op(byte(LOG0 + n))
		return
	}
	g.A.PushU(g.smallLen()).PushU(g.smallOff())
	g.op(byte(LOG0 + n))
}

func (g *Gen) gLoop() {
	// counter loop: PUSH n; L: JUMPDEST; <body>; PUSH 1; SWAP1; SUB; DUP1; PUSH L; JUMPI; POP
	n := uint64(1 + g.R.Intn(4))
	l := g.A.NewLabel()
	g.A.PushU(n)
	g.A.Label(l)
	// body keeps the counter on the stack: use stack-neutral gadgets only
	g.gArith()
	if g.R.Bool() {
		g.gMem()
	}
	g.A.PushU(1)
	g.op(SWAP1)
	g.op(SUB)
	g.op(DUP1)
	g.A.JumpI(l)
	g.op(POP)
}

func (g *Gen) gBranch() {
	l := g.A.NewLabel()
	g.A.Push(g.R.Operand()).Push(g.R.Operand())
	g.op(Pick(g.R, []byte{LT, GT, EQ, SLT}))
	g.A.JumpI(l)
	g.gArith()
	g.A.Label(l)
}

func (g *Gen) callGas() {
	switch g.R.Intn(7) {
	case 0:
		g.A.PushU(0)
	case 1:
		g.A.PushU(uint64(g.R.Intn(3000)))
	case 2:
		if g.O.NoGasOp {
			g.A.PushU(50000)
		} else {
			g.op(GAS)
		}
	case 3:
		g.A.PushU(0xffffffff)
	case 4:
		g.A.Push(new(uint256.Int).Not(uint256.NewInt(0)))
	default:
		g.A.PushU(uint64(10000 + g.R.Intn(60000)))
	}
}

func (g *Gen) callValue() {
	switch g.R.Intn(6) {
	case 0, 1, 2:
		g.A.PushU(0)
	case 3:
		g.A.PushU(1)
	case 4:
		g.A.PushU(uint64(g.R.Intn(3000)))
	default:
		g.A.Push(new(uint256.Int).Lsh(uint256.NewInt(1), 200))
	}
}

// gCall emits one of the four call kinds with possibly overlapping argument and return regions.
func (g *Gen) gCall() {
	kind := Pick(g.R, []byte{CALL, CALL, CALL, CALLCODE, DELEGATECALL, STATICCALL})
	inOff, inLen := g.smallOff(), g.smallLen()
	var retOff, retLen uint64
	switch g.R.Intn(4) {
	case 0:
		retOff, retLen = inOff, inLen // exact overlap
	case 1:
		retOff, retLen = inOff+uint64(g.R.Intn(8)), g.smallLen()
	case 2:
		retOff, retLen = 0, 0
	default:
		retOff, retLen = g.smallOff(), g.smallLen()
	}
	if g.R.Chance(40) {
		// put something recognisable into the argument area first
		g.A.Push(g.R.U256()).PushU(inOff)
		g.op(MSTORE)
	}
	g.A.PushU(retLen).PushU(retOff).PushU(inLen).PushU(inOff)
	if kind == CALL || kind == CALLCODE {
		g.callValue()
	}
	tgt := g.target()
	g.A.PushAddr(tgt)
	g.callGas()
	g.op(kind)
	// store the success flag
	if g.R.Chance(50) {
		g.A.PushU(uint64(g.R.Intn(8)))
		g.op(SSTORE)
	} else {
		g.sink()
	}
	if !g.O.NoCodeIntro && g.R.Chance(25) {
		// look at the account the call has just touched (it may now exist although it is empty)
		g.A.PushAddr(tgt)
		g.op(Pick(g.R, []byte{EXTCODEHASH, EXTCODEHASH, EXTCODESIZE, BALANCE}))
		g.sink()
	}
	if g.R.Chance(30) {
		// overwrite the argument area afterwards
		g.A.Push(g.R.U256()).PushU(inOff)
		g.op(MSTORE)
	}
	if g.R.Chance(20) {
		g.op(RETURNDATASIZE)
		g.sink()
	}
	if g.O.ReturnData && g.R.Chance(35) {
		// copy the whole return-data buffer (always in bounds) and make its first word observable
		dst := g.smallOff()
		g.op(RETURNDATASIZE)
		g.A.PushU(0).PushU(dst)
		g.op(RETURNDATACOPY)
		g.A.PushU(dst)
		g.op(MLOAD)
		g.A.PushU(uint64(g.R.Intn(8)))
		g.op(SSTORE)
	}
}

// gIdentityAlias: call the identity precompile, overwrite its input area, then read the return data.
func (g *Gen) gIdentityAlias() {
	in := g.smallOff()
	g.A.Push(g.R.U256()).PushU(in)
	g.op(MSTORE)
	kind := Pick(g.R, []byte{CALL, CALLCODE, DELEGATECALL, STATICCALL})
	retOff := in
	if g.R.Bool() {
		retOff = in + uint64(1+g.R.Intn(31)) // shifted overlap
	}
	g.A.PushU(32).PushU(retOff).PushU(32).PushU(in)
	if kind == CALL || kind == CALLCODE {
		g.A.PushU(0)
	}
	g.A.PushAddr(common.BytesToAddress([]byte{4})).PushU(uint64(2000 + g.R.Intn(3000)))
	g.op(kind)
	g.op(POP)
	g.A.Push(g.R.U256()).PushU(in)
	g.op(MSTORE)
	if g.O.ReturnData {
		g.op(RETURNDATASIZE)
		g.A.PushU(0).PushU(0x300)
		g.op(RETURNDATACOPY)
		g.A.PushU(0x300)
		g.op(MLOAD)
		g.A.PushU(uint64(g.R.Intn(8)))
		g.op(SSTORE)
	}
}

// InitTemplates returns init-code templates: returns code / reverts / runs out of gas /
// self-destructs / 0xEF prefix / oversize / empty.
func InitTemplate(r *RNG, kind int) []byte {
	a := NewAsm()
	switch kind {
	case 0: // returns small runtime
		rt := NewAsm().PushU(uint64(r.Intn(256))).PushU(uint64(r.Intn(4))).Op(SSTORE, STOP).Bytes()
		return InitCodeReturning(rt)
	case 1: // reverts with data
		a.Push(r.U256()).PushU(0).Op(MSTORE).PushU(uint64(r.Intn(33))).PushU(0).Op(REVERT)
	case 2: // infinite loop -> out of gas
		a.Label("l").Jump("l")
	case 3: // selfdestruct in init
		a.PushAddr(EOARich).Op(SELFDESTRUCT)
	case 4: // returns code starting with 0xEF
		a.Push(new(uint256.Int).Lsh(uint256.NewInt(0xEF), 248)).PushU(0).Op(MSTORE).PushU(uint64(1 + r.Intn(32))).PushU(0).Op(RETURN)
	case 5: // oversize code (24577 bytes)
		a.PushU(24577).PushU(0).Op(RETURN)
	case 6: // empty init code
		return nil
	case 7: // sstore + log + return empty
		a.PushU(7).PushU(1).Op(SSTORE).PushU(0).PushU(0).Op(LOG0).PushU(0).PushU(0).Op(RETURN)
	case 8: // invalid opcode
		a.Op(INVALID)
	case 9: // returns exactly max size (24576)
		a.PushU(24576).PushU(0).Op(RETURN)
	case 10: // oversize AND starting with 0xEF: two rules apply, the reference decides which one is reported
		a.Push(new(uint256.Int).Lsh(uint256.NewInt(0xEF), 248)).PushU(0).Op(MSTORE).PushU(uint64(24577 + r.Intn(3))).PushU(0).Op(RETURN)
	case 12: // init code that itself calls something returning data (identity precompile), then deploys one byte
		a.Push(r.U256()).PushU(0).Op(MSTORE).PushU(32).PushU(0x40).PushU(32).PushU(0).PushU(0).PushAddr(common.BytesToAddress([]byte{4})).PushU(3000).Op(CALL, POP)
		a.PushU(1).PushU(0).Op(RETURN)
	case 13: // ... and then fails
		a.Push(r.U256()).PushU(0).Op(MSTORE).PushU(32).PushU(0x40).PushU(32).PushU(0).PushU(0).PushAddr(common.BytesToAddress([]byte{4})).PushU(3000).Op(CALL, POP, INVALID)
	case 11: // exactly max size starting with 0xEF
		a.Push(new(uint256.Int).Lsh(uint256.NewInt(0xEF), 248)).PushU(0).Op(MSTORE).PushU(24576).PushU(0).Op(RETURN)
	}
	return a.Bytes()
}

const NumInitTemplates = 14

// JumpyInit returns init code whose only JUMPDEST sits behind a data region of n bytes (some of them 0x5b):
// the position of the valid destination differs with n.
func JumpyInit(r *RNG, n int) []byte {
	a := NewAsm()
	target := 3 + 1 + n
	a.Op(PUSH1, byte(target), JUMP)
	data := r.Bytes(n)
	for i := range data {
		if i%3 == 1 {
			data[i] = JUMPDEST
		}
	}
	a.Op(byte(PUSH1 + n - 1))
	a.Raw(data)
	a.Op(JUMPDEST, PUSH1, 0, PUSH1, 0, RETURN)
	return a.Bytes()
}

// gCreatePair: two plain CREATEs (no code hash) with init codes that both jump, laid out differently.
func (g *Gen) gCreatePair() {
	n1 := 1 + g.R.Intn(32)
	n2 := 1 + g.R.Intn(32)
	if n1 == n2 {
		n2 = n1%32 + 1
	}
	for _, n := range []int{n1, n2} {
		init := JumpyInit(g.R, n)
		g.A.MstoreBytes(0, init)
		g.A.PushU(uint64(len(init))).PushU(0).PushU(0)
		g.op(CREATE)
		g.A.PushU(uint64(g.R.Intn(8)))
		g.op(SSTORE)
	}
}

func (g *Gen) gCreate() {
	if g.R.Chance(20) {
		g.gCreatePair()
		return
	}
	init := InitTemplate(g.R, g.R.Intn(NumInitTemplates))
	if len(init) > 96 {
		init = init[:96]
	}
	g.A.MstoreBytes(0, init)
	two := g.R.Chance(40)
	lastSalt := uint64(g.R.Intn(3))
	if two {
		g.A.Push(uint256.NewInt(lastSalt)) // salt (small: collisions on repeat)
	}
	g.A.PushU(uint64(len(init))).PushU(0)
	switch g.R.Intn(4) {
	case 0:
		g.A.PushU(1)
	case 1:
		g.A.Push(new(uint256.Int).Lsh(uint256.NewInt(1), 200))
	default:
		g.A.PushU(0)
	}
	if two {
		g.op(CREATE2)
	} else {
		g.op(CREATE)
	}
	g.sink()
	if two && g.R.Chance(30) {
		// the very same CREATE2 again: address collision
		g.A.Push(uint256.NewInt(lastSalt))
		g.A.PushU(uint64(len(init))).PushU(0).PushU(0)
		g.op(CREATE2)
		g.sink()
	}
}

func (g *Gen) gTerminator() {
	switch g.R.Intn(8) {
	case 0:
		g.op(STOP)
	case 1, 2:
		g.A.PushU(g.smallLen()).PushU(g.smallOff())
		g.op(RETURN)
	case 3:
		g.A.PushU(g.smallLen()).PushU(g.smallOff())
		g.op(REVERT)
	case 4:
		if !g.O.NoInvalid {
			g.op(INVALID)
		}
	case 5:
		if !g.O.NoSelfdestr {
			g.A.PushAddr(g.target())
			g.op(SELFDESTRUCT)
		}
	default:
		// fall off the end (implicit STOP)
	}
}

func (g *Gen) gBad() {
	switch g.R.Intn(7) {
	case 0:
		g.op(POP) // likely stack underflow
	case 1:
		g.A.Push(g.R.Operand())
		g.op(JUMP) // invalid jump
	case 2:
		g.A.Push(new(uint256.Int).Lsh(uint256.NewInt(1), 60)).PushU(0)
		g.op(MSTORE) // huge memory -> oog
		// unreachable
	case 3:
		g.A.Raw(g.R.Bytes(1 + g.R.Intn(6)))
	case 4:
		g.A.Push(g.R.Operand()).Push(g.R.Operand()).Push(g.R.Operand())
		g.op(Pick(g.R, []byte{CALLDATACOPY, CODECOPY, RETURNDATACOPY}))
	case 5:
		g.op(byte(0x0c + g.R.Intn(4))) // undefined opcode
	case 6:
		g.A.Op(PUSH32) // truncated push at end maybe
		g.A.Raw(g.R.Bytes(g.R.Intn(20)))
	}
}

// Gadget emits one random gadget.
func (g *Gen) Gadget() {
	cb := g.O.CallBias
	if cb == 0 {
		cb = 15
	}
	if len(g.O.Extra) > 0 && g.R.Chance(g.O.ExtraBias) {
		Pick(g.R, g.O.Extra)(g)
		return
	}
	if g.R.Chance(cb) {
		switch {
		case !g.O.NoCreate && g.R.Chance(20):
			g.gCreate()
		case g.O.Precompiles && g.R.Chance(12):
			g.gIdentityAlias()
		default:
			g.gCall()
		}
		return
	}
	switch g.R.Intn(14) {
	case 0, 1, 2:
		g.gArith()
	case 3, 4:
		g.gMem()
	case 5, 6:
		g.gEnv()
	case 7, 8:
		g.gStorage()
	case 9:
		g.gLog()
	case 10:
		g.gLoop()
	case 11:
		g.gBranch()
	case 12:
		if g.O.Push0 {
			g.op(PUSH0)
			g.sink()
		} else {
			g.gArith()
		}
	case 13:
		if !g.O.NoInvalid && g.R.Chance(25) {
			g.gBad()
		} else {
			g.gStorage()
		}
	}
}

// GenProgram generates the code of contract `self`.
func GenProgram(r *RNG, self int, o GenOpts) []byte {
	g := &Gen{R: r, A: NewAsm(), O: o, Self: self}
	max := o.MaxGadgets
	if max == 0 {
		max = 12
	}
	n := 1 + r.Intn(max)
	for i := 0; i < n; i++ {
		g.Gadget()
	}
	g.gTerminator()
	return g.A.Bytes()
}

// GenWorld generates a world of n mutually calling contracts.
func GenWorld(r *RNG, n int, o GenOpts) *World {
	o.NContracts = n
	codes := make([][]byte, n)
	for i := range codes {
		codes[i] = GenProgram(r, i, o)
	}
	w := BaseWorld(codes)
	// random pre-state storage in slots 0..7
	for i := 0; i < n; i++ {
		a := w.Get(ContractAddr(i))
		k := r.Intn(4)
		for j := 0; j < k; j++ {
			v := r.Operand()
			if !v.IsZero() {
				a.Storage[HashU(uint64(r.Intn(8)))] = v.Bytes32()
			}
		}
	}
	return w
}
