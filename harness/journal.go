package harness

import (
	"github.com/holiman/uint256"
)

// Emitters for the Artela journal instructions. Operand order (top of stack
// first) follows vm/instructions.go:
//   0xe0 RSVJNAL  namePtr, slot, typeId
//   0xe1 VSVJNAL  namePtr, slot, offset, typeId
//   0xe2 IRVVJNAL base, slot, keyPtr, offset, typeId, parentTypeId
//   0xe3 IRVRJNAL base, slot, keyPtr, typeId, parentTypeId
//   0xe4 IVVVJNAL base, slot, keyValue, offset, typeId, parentTypeId
//   0xe5 IVVRJNAL base, slot, keyValue, typeId, parentTypeId
//   0xe6 VVJNAL   slot, offset, typeSize, typeId
//   0xe7 VRJNAL   slot, typeId

// JournalPops is the number of operands each journal opcode consumes.
var JournalPops = map[byte]int{RSVJNAL: 3, VSVJNAL: 4, IRVVJNAL: 6, IRVRJNAL: 5, IVVVJNAL: 6, IVVRJNAL: 5, VVJNAL: 4, VRJNAL: 2}

func IsJournalOp(op byte) bool { return op >= 0xe0 && op <= 0xe7 }

// MstoreName writes a length-prefixed byte string (32-byte length word, then data) at memory offset off.
func (a *Asm) MstoreName(off uint64, name []byte) *Asm {
	a.PushU(uint64(len(name))).PushU(off).Op(MSTORE)
	a.MstoreBytes(off+32, name)
	return a
}

// pushAll pushes operands so that ops[0] ends on top of the stack.
func (a *Asm) pushAll(ops ...*uint256.Int) *Asm {
	for i := len(ops) - 1; i >= 0; i-- {
		a.Push(ops[i])
	}
	return a
}

// Journal emits a journal instruction with the given operands (top of stack first).
func (a *Asm) Journal(op byte, ops ...*uint256.Int) *Asm {
	if len(ops) != JournalPops[op] {
		panic("journal operand count")
	}
	return a.pushAll(ops...).Op(op)
}

func U(v uint64) *uint256.Int { return uint256.NewInt(v) }

// TypeID returns a recognisable 32-byte type id.
func TypeID(n int) *uint256.Int {
	v := new(uint256.Int).Lsh(uint256.NewInt(0x7700+uint64(n)), 240)
	return v.Add(v, uint256.NewInt(uint64(n)))
}
