package harness

// Hand-assembled WASM Aspects. They go through the genuine aspect-runtime
// path (validation, gas instrumentation, wasmtime), so gas burning, traps and
// out-of-gas are produced by the real runtime, not by a mock.

func leb(u uint64) []byte {
	var out []byte
	for {
		b := byte(u & 0x7f)
		u >>= 7
		if u != 0 {
			out = append(out, b|0x80)
		} else {
			out = append(out, b)
			return out
		}
	}
}

func sleb(v int64) []byte {
	var out []byte
	for {
		b := byte(v & 0x7f)
		v >>= 7
		if (v == 0 && b&0x40 == 0) || (v == -1 && b&0x40 != 0) {
			out = append(out, b)
			return out
		}
		out = append(out, b|0x80)
	}
}

func section(id byte, body []byte) []byte {
	out := []byte{id}
	out = append(out, leb(uint64(len(body)))...)
	return append(out, body...)
}

func vec(items ...[]byte) []byte {
	out := leb(uint64(len(items)))
	for _, it := range items {
		out = append(out, it...)
	}
	return out
}

func wname(s string) []byte {
	return append(leb(uint64(len(s))), []byte(s)...)
}

// BuildAspect returns a WASM Aspect whose `execute` runs `loops` iterations of
// a counted loop (burning gas proportionally) and then either traps
// (trap=true) or returns 0 (void).
func BuildAspect(loops uint32, trap bool) []byte {
	m := []byte{0x00, 0x61, 0x73, 0x6d, 0x01, 0x00, 0x00, 0x00}
	// types
	t0 := []byte{0x60, 0x00, 0x00}
	t1 := []byte{0x60, 0x01, 0x7f, 0x01, 0x7f}
	t2 := []byte{0x60, 0x02, 0x7f, 0x7f, 0x01, 0x7f}
	m = append(m, section(1, vec(t0, t1, t2))...)
	// functions
	m = append(m, section(3, vec([]byte{0}, []byte{1}, []byte{2}))...)
	// memory: min 16 pages
	m = append(m, section(5, vec([]byte{0x00, 16}))...)
	// global: mutable i32 = 1024
	g := append([]byte{0x7f, 0x01, 0x41}, sleb(1024)...)
	g = append(g, 0x0b)
	m = append(m, section(6, vec(g))...)
	// exports
	ex := vec(
		append(wname("memory"), 0x02, 0x00),
		append(wname("__aspect_start__"), 0x00, 0x00),
		append(wname("allocate"), 0x00, 0x01),
		append(wname("execute"), 0x00, 0x02),
	)
	m = append(m, section(7, ex)...)
	// code
	body0 := []byte{0x00, 0x0b}
	// allocate(size): old = heap; heap = heap + size + 16 (rounded loosely); return old
	body1 := []byte{0x00,
		0x23, 0x00, // global.get 0
		0x23, 0x00, // global.get 0
		0x20, 0x00, // local.get 0
		0x6a,       // i32.add
		0x41, 0x10, // i32.const 16
		0x6a,       // i32.add
		0x24, 0x00, // global.set 0
		0x0b}
	// execute(a,b): local i: i32; loop { i++; br_if i < loops }; [unreachable]; i32.const 0
	body2 := []byte{0x01, 0x01, 0x7f} // 1 local group: 1 x i32 (local index 2)
	if loops > 0 {
		body2 = append(body2,
			0x03, 0x40, // loop void
			0x20, 0x02, // local.get 2
			0x41, 0x01, // i32.const 1
			0x6a,       // i32.add
			0x22, 0x02, // local.tee 2
		)
		body2 = append(body2, 0x41)
		body2 = append(body2, sleb(int64(int32(loops)))...)
		body2 = append(body2,
			0x49,       // i32.lt_u
			0x0d, 0x00, // br_if 0
			0x0b, // end loop
		)
	}
	if trap {
		body2 = append(body2, 0x00) // unreachable
	}
	body2 = append(body2, 0x41, 0x00, 0x0b)
	wrap := func(b []byte) []byte { return append(leb(uint64(len(b))), b...) }
	m = append(m, section(10, vec(wrap(body0), wrap(body1), wrap(body2)))...)
	return m
}
