package harness

import (
	"errors"
	"fmt"
	"math/big"
	"strings"

	avm "github.com/artela-network/artela-evm/vm"
	atypes "github.com/artela-network/aspect-core/types"
	"github.com/ethereum/go-ethereum/common"
	"github.com/ethereum/go-ethereum/core/types"
	evm "github.com/ethereum/go-ethereum/core/vm"
	"github.com/holiman/uint256"
	"google.golang.org/protobuf/proto"
)

// Kind of a recorded event.
type Kind uint8

const (
	KTxStart Kind = iota
	KTxEnd
	KStart
	KEnd
	KEnter
	KExit
	KStep
	KFault
	KAspectEnter
	KAspectExit
	KProvider // one GetTxBondAspects call = one join-point firing
	KSnapshot
	KRevert
	KMut // state mutation
	KTransfer
	KCtxGet
	KCtxSet
	KJITSender
	KInvoke // harness: entry point invoked
	KReturn // harness: entry point returned
)

var kindNames = []string{"TxStart", "TxEnd", "Start", "End", "Enter", "Exit", "Step", "Fault", "AspectEnter", "AspectExit", "Provider", "Snapshot", "Revert", "Mut", "Transfer", "CtxGet", "CtxSet", "JITSender", "Invoke", "Return"}

func (k Kind) String() string { return kindNames[k] }

// Mutation kinds.
const (
	MCreateAccount = "CreateAccount"
	MSubBalance    = "SubBalance"
	MAddBalance    = "AddBalance"
	MSetNonce      = "SetNonce"
	MSetCode       = "SetCode"
	MSetState      = "SetState"
	MSetTransient  = "SetTransient"
	MSuicide       = "Suicide"
	MAddLog        = "AddLog"
	MAddRefund     = "AddRefund"
	MSubRefund     = "SubRefund"
	MAccessAddr    = "AccessAddr"
	MAccessSlot    = "AccessSlot"
	MAddPreimage   = "AddPreimage"
)

// Event is one entry of the totally ordered execution log.
type Event struct {
	K   Kind
	Seq int

	// Step / Fault
	PC      uint64
	Op      byte
	Gas     uint64
	Cost    uint64
	Depth   int
	Stack   []uint256.Int // bottom first
	Mem     []byte        // nil when longer than MemCap
	MemLen  int
	MemHash common.Hash
	RData   []byte
	Err     string // error class ("" = nil)
	ErrText string
	ErrVal  error
	Addr    common.Address // executing contract's storage address (Step), or generic address
	Code    common.Address // code address (Step)
	Reads   uint64         // cumulative state reads at this point (fork StateDB proxy)
	Alloc   uint64         // cumulative bytes allocated (only when enabled)

	// Start/Enter
	Typ    byte
	From   common.Address
	To     common.Address
	Create bool
	Input  []byte
	Value  *big.Int // nil preserved
	// End/Exit
	Output  []byte
	GasUsed uint64

	// Aspect
	JP       int64
	AspectID common.Address
	Req      proto.Message
	ResGas   uint64

	// Provider
	Pointcut string
	Firing   int // firing sequence number within the execution

	// StateDB
	SnapID int
	Mut    string
	Key    common.Hash
	Val    common.Hash
	Amount *big.Int
	U64    uint64
	Bytes  []byte
	Log    *types.Log
	Bal    [4]*big.Int // transfer: from-before, to-before, from-after, to-after

	// context callbacks
	CtxKey string
}

const MemCap = 1 << 16

// ErrClass maps an error of either VM to a comparable class.
func ErrClass(err error) string {
	if err == nil {
		return ""
	}
	switch {
	case err == avm.ErrOutOfGas || err == evm.ErrOutOfGas:
		return "oog"
	case err == avm.ErrCodeStoreOutOfGas || err == evm.ErrCodeStoreOutOfGas:
		return "codestore_oog"
	case err == avm.ErrDepth || err == evm.ErrDepth:
		return "depth"
	case err == avm.ErrInsufficientBalance || err == evm.ErrInsufficientBalance:
		return "balance"
	case err == avm.ErrContractAddressCollision || err == evm.ErrContractAddressCollision:
		return "collision"
	case err == avm.ErrExecutionReverted || err == evm.ErrExecutionReverted:
		return "revert"
	case err == avm.ErrMaxInitCodeSizeExceeded || err == evm.ErrMaxInitCodeSizeExceeded:
		return "max_initcode"
	case err == avm.ErrMaxCodeSizeExceeded || err == evm.ErrMaxCodeSizeExceeded:
		return "max_code"
	case err == avm.ErrInvalidJump || err == evm.ErrInvalidJump:
		return "invalid_jump"
	case err == avm.ErrWriteProtection || err == evm.ErrWriteProtection:
		return "write_protection"
	case err == avm.ErrReturnDataOutOfBounds || err == evm.ErrReturnDataOutOfBounds:
		return "returndata_oob"
	case err == avm.ErrGasUintOverflow || err == evm.ErrGasUintOverflow:
		return "gas_overflow"
	case err == avm.ErrInvalidCode || err == evm.ErrInvalidCode:
		return "invalid_code"
	case err == avm.ErrNonceUintOverflow || err == evm.ErrNonceUintOverflow:
		return "nonce_overflow"
	}
	var a1 *avm.ErrStackUnderflow
	var e1 *evm.ErrStackUnderflow
	if errors.As(err, &a1) || errors.As(err, &e1) {
		return "stack_underflow"
	}
	var a2 *avm.ErrStackOverflow
	var e2 *evm.ErrStackOverflow
	if errors.As(err, &a2) || errors.As(err, &e2) {
		return "stack_overflow"
	}
	var a3 *avm.ErrInvalidOpCode
	var e3 *evm.ErrInvalidOpCode
	if errors.As(err, &a3) || errors.As(err, &e3) {
		return "invalid_opcode"
	}
	return "other:" + err.Error()
}

// Short renders an event compactly for replay files.
func (e *Event) Short() string {
	switch e.K {
	case KStep, KFault:
		top := ""
		n := len(e.Stack)
		for i := n - 1; i >= 0 && i >= n-4; i-- {
			top += " " + e.Stack[i].Hex()
		}
		return fmt.Sprintf("%d %s d=%d pc=%d op=%#x gas=%d cost=%d mem=%d err=%q addr=%s top=[%s]", e.Seq, e.K, e.Depth, e.PC, e.Op, e.Gas, e.Cost, e.MemLen, e.Err, short(e.Addr), strings.TrimSpace(top))
	case KStart, KEnter:
		return fmt.Sprintf("%d %s typ=%#x from=%s to=%s gas=%d value=%v in=%x", e.Seq, e.K, e.Typ, short(e.From), short(e.To), e.Gas, e.Value, trunc(e.Input))
	case KEnd, KExit:
		return fmt.Sprintf("%d %s used=%d err=%q out=%x", e.Seq, e.K, e.GasUsed, e.Err, trunc(e.Output))
	case KAspectEnter:
		return fmt.Sprintf("%d AspectEnter jp=%d aspect=%s from=%s to=%s gas=%d", e.Seq, e.JP, short(e.AspectID), short(e.From), short(e.To), e.Gas)
	case KAspectExit:
		return fmt.Sprintf("%d AspectExit jp=%d gas=%d err=%q", e.Seq, e.JP, e.ResGas, e.ErrText)
	case KProvider:
		return fmt.Sprintf("%d Provider firing=%d %s contract=%s err=%q", e.Seq, e.Firing, e.Pointcut, short(e.Addr), e.ErrText)
	case KSnapshot, KRevert:
		return fmt.Sprintf("%d %s id=%d", e.Seq, e.K, e.SnapID)
	case KMut:
		return fmt.Sprintf("%d Mut %s addr=%s key=%s val=%s amt=%v u=%d", e.Seq, e.Mut, short(e.Addr), e.Key.Hex(), e.Val.Hex(), e.Amount, e.U64)
	case KTransfer:
		return fmt.Sprintf("%d Transfer %s->%s amt=%v bal=%v", e.Seq, short(e.From), short(e.To), e.Amount, e.Bal)
	case KInvoke:
		return fmt.Sprintf("%d Invoke", e.Seq)
	case KReturn:
		return fmt.Sprintf("%d Return gas=%d err=%q out=%x", e.Seq, e.Gas, e.Err, trunc(e.Output))
	}
	return fmt.Sprintf("%d %s", e.Seq, e.K)
}

func short(a common.Address) string { return fmt.Sprintf("%x..%x", a[:2], a[18:]) }

func trunc(b []byte) []byte {
	if len(b) > 48 {
		return b[:48]
	}
	return b
}

// Log is the per-execution event log (owned by one goroutine).
type Log struct {
	Events   []Event
	RecSteps bool // record Step events with stack/memory
	LightMem bool // do not copy memory (only len + hash)
	// OnAdd, when set, is called synchronously for every event (online monitors).
	OnAdd func(e *Event)
}

func (l *Log) add(e Event) *Event {
	e.Seq = len(l.Events)
	l.Events = append(l.Events, e)
	pe := &l.Events[len(l.Events)-1]
	if l.OnAdd != nil {
		l.OnAdd(pe)
	}
	return pe
}

// Add appends a harness-made event.
func (l *Log) Add(e Event) *Event { return l.add(e) }

func cpBytes(b []byte) []byte {
	if b == nil {
		return nil
	}
	return append([]byte{}, b...)
}

func cpBig(v *big.Int) *big.Int {
	if v == nil {
		return nil
	}
	return new(big.Int).Set(v)
}

// AspectLoggerCompat asserts the recorder satisfies the aspect logger interface.
var _ atypes.AspectLogger = (*ForkRecorder)(nil)
