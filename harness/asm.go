package harness

import (
	"encoding/binary"

	"github.com/ethereum/go-ethereum/common"
	"github.com/holiman/uint256"
)

// Opcode bytes used by the generators (own constants: the same program is fed
// to both VMs as raw bytes).
const (
	STOP           = 0x00
	ADD            = 0x01
	MUL            = 0x02
	SUB            = 0x03
	DIV            = 0x04
	SDIV           = 0x05
	MOD            = 0x06
	SMOD           = 0x07
	ADDMOD         = 0x08
	MULMOD         = 0x09
	EXP            = 0x0a
	SIGNEXTEND     = 0x0b
	LT             = 0x10
	GT             = 0x11
	SLT            = 0x12
	SGT            = 0x13
	EQ             = 0x14
	ISZERO         = 0x15
	AND            = 0x16
	OR             = 0x17
	XOR            = 0x18
	NOT            = 0x19
	BYTE           = 0x1a
	SHL            = 0x1b
	SHR            = 0x1c
	SAR            = 0x1d
	KECCAK256      = 0x20
	ADDRESS        = 0x30
	BALANCE        = 0x31
	ORIGIN         = 0x32
	CALLER         = 0x33
	CALLVALUE      = 0x34
	CALLDATALOAD   = 0x35
	CALLDATASIZE   = 0x36
	CALLDATACOPY   = 0x37
	CODESIZE       = 0x38
	CODECOPY       = 0x39
	GASPRICE       = 0x3a
	EXTCODESIZE    = 0x3b
	EXTCODECOPY    = 0x3c
	RETURNDATASIZE = 0x3d
	RETURNDATACOPY = 0x3e
	EXTCODEHASH    = 0x3f
	BLOCKHASH      = 0x40
	COINBASE       = 0x41
	TIMESTAMP      = 0x42
	NUMBER         = 0x43
	DIFFICULTY     = 0x44
	GASLIMIT       = 0x45
	CHAINID        = 0x46
	SELFBALANCE    = 0x47
	BASEFEE        = 0x48
	POP            = 0x50
	MLOAD          = 0x51
	MSTORE         = 0x52
	MSTORE8        = 0x53
	SLOAD          = 0x54
	SSTORE         = 0x55
	JUMP           = 0x56
	JUMPI          = 0x57
	PC             = 0x58
	MSIZE          = 0x59
	GAS            = 0x5a
	JUMPDEST       = 0x5b
	TLOAD          = 0x5c
	TSTORE         = 0x5d
	MCOPY          = 0x5e
	PUSH0          = 0x5f
	PUSH1          = 0x60
	PUSH2          = 0x61
	PUSH32         = 0x7f
	DUP1           = 0x80
	SWAP1          = 0x90
	LOG0           = 0xa0
	CREATE         = 0xf0
	CALL           = 0xf1
	CALLCODE       = 0xf2
	RETURN         = 0xf3
	DELEGATECALL   = 0xf4
	CREATE2        = 0xf5
	STATICCALL     = 0xfa
	REVERT         = 0xfd
	INVALID        = 0xfe
	SELFDESTRUCT   = 0xff

	RSVJNAL  = 0xe0
	VSVJNAL  = 0xe1
	IRVVJNAL = 0xe2
	IRVRJNAL = 0xe3
	IVVVJNAL = 0xe4
	IVVRJNAL = 0xe5
	VVJNAL   = 0xe6
	VRJNAL   = 0xe7
)

// Asm is a tiny assembler with labels.
type Asm struct {
	buf    []byte
	labels map[string]int
	fixups []fixup
	nlabel int
}

type fixup struct {
	pos   int
	label string
}

func NewAsm() *Asm { return &Asm{labels: map[string]int{}} }

func (a *Asm) Len() int { return len(a.buf) }

// Op appends raw opcode bytes.
func (a *Asm) Op(ops ...byte) *Asm { a.buf = append(a.buf, ops...); return a }

// Raw appends raw bytes.
func (a *Asm) Raw(b []byte) *Asm { a.buf = append(a.buf, b...); return a }

// Push pushes v using the shortest PUSHn (PUSH1 0 for zero: PUSH0 is fork dependent).
func (a *Asm) Push(v *uint256.Int) *Asm {
	b := v.Bytes()
	if len(b) == 0 {
		b = []byte{0}
	}
	a.buf = append(a.buf, byte(PUSH1+len(b)-1))
	a.buf = append(a.buf, b...)
	return a
}

func (a *Asm) PushU(v uint64) *Asm { return a.Push(uint256.NewInt(v)) }

// Push32 always emits a 32-byte push.
func (a *Asm) Push32(v *uint256.Int) *Asm {
	b := v.Bytes32()
	a.buf = append(a.buf, PUSH32)
	a.buf = append(a.buf, b[:]...)
	return a
}

func (a *Asm) PushBytes(b []byte) *Asm {
	if len(b) == 0 || len(b) > 32 {
		panic("PushBytes size")
	}
	a.buf = append(a.buf, byte(PUSH1+len(b)-1))
	a.buf = append(a.buf, b...)
	return a
}

func (a *Asm) PushAddr(addr common.Address) *Asm { return a.PushBytes(addr[:]) }

// NewLabel returns a fresh label name.
func (a *Asm) NewLabel() string {
	a.nlabel++
	return "L" + string(rune('a'+a.nlabel%26)) + string(rune('a'+(a.nlabel/26)%26)) + string(rune('a'+(a.nlabel/676)%26))
}

// Label places a JUMPDEST.
func (a *Asm) Label(name string) *Asm {
	a.labels[name] = len(a.buf)
	a.buf = append(a.buf, JUMPDEST)
	return a
}

// Mark records the current position under name without emitting anything
// (used for data blobs appended to code).
func (a *Asm) Mark(name string) *Asm {
	a.labels[name] = len(a.buf)
	return a
}

// PushLabel emits PUSH2 <label>.
func (a *Asm) PushLabel(name string) *Asm {
	a.buf = append(a.buf, PUSH2, 0, 0)
	a.fixups = append(a.fixups, fixup{len(a.buf) - 2, name})
	return a
}

func (a *Asm) Jump(name string) *Asm  { return a.PushLabel(name).Op(JUMP) }
func (a *Asm) JumpI(name string) *Asm { return a.PushLabel(name).Op(JUMPI) }

// Bytes resolves labels and returns the code.
func (a *Asm) Bytes() []byte {
	out := append([]byte(nil), a.buf...)
	for _, f := range a.fixups {
		pos, ok := a.labels[f.label]
		if !ok {
			panic("undefined label " + f.label)
		}
		binary.BigEndian.PutUint16(out[f.pos:], uint16(pos))
	}
	return out
}

// MstoreBytes writes data into memory at off using MSTOREs (zero padded to 32).
func (a *Asm) MstoreBytes(off uint64, data []byte) *Asm {
	for i := 0; i < len(data); i += 32 {
		var w [32]byte
		copy(w[:], data[i:])
		a.Push32(new(uint256.Int).SetBytes32(w[:])).PushU(off + uint64(i)).Op(MSTORE)
	}
	return a
}

// ReturnCode builds init code that returns `runtime` as the deployed code.
func InitCodeReturning(runtime []byte) []byte {
	a := NewAsm()
	// CODECOPY(0, codeOffset, len); RETURN(0, len)
	// layout: PUSH2 len PUSH2 off PUSH1 0 CODECOPY PUSH2 len PUSH1 0 RETURN <runtime>
	const hdr = 3 + 3 + 2 + 1 + 3 + 2 + 1
	a.Op(PUSH2, byte(len(runtime)>>8), byte(len(runtime)))
	a.Op(PUSH2, 0, hdr)
	a.Op(PUSH1, 0, CODECOPY)
	a.Op(PUSH2, byte(len(runtime)>>8), byte(len(runtime)))
	a.Op(PUSH1, 0, RETURN)
	a.Raw(runtime)
	return a.Bytes()
}
