package props

import (
	"fmt"
	"github.com/ethereum/go-ethereum/crypto"
	"github.com/holiman/uint256"
	"math/big"
	"strings"

	h "verif/harness"

	"github.com/ethereum/go-ethereum/common"
	"github.com/ethereum/go-ethereum/core/state"
)

// C04 — a failed frame leaves world state untouched (effect-log replay).

func init() {
	Register(&Prop{
		ID:    "C04",
		Level: "fault_enumeration",
		Rule: "scenarios = generated call trees (depth<=4, width<=3, CALL/CALLCODE/DELEGATECALL/STATICCALL/CREATE/CREATE2 children, value transfers, storage writes and logs before/inside/after each call, terminators stop/return/revert/invalid/out-of-gas/selfdestruct) on forks Byzantium..Shanghai with real WASM Aspects bound to a random subset of contracts; " +
			"for every scenario the baseline run is followed by one run per (join-point firing position i, error kind in {generic, text 'out of gas', vm revert, aspect revert}) with a provider failure injected at firing i, plus runs with trapping and gas-exhausting Aspects; " +
			"online monitor: a copy of the state taken at each frame's entry snapshot must equal the state when that frame exits with an error (root, log count); offline: replaying onto a copy of the pre-state exactly the mutations of frames that (with all ancestors) succeeded must reproduce the final state root and logs; the caller's next instruction must see flag 0 for every failed frame; " +
			"distinct_nontrivial = distinct (tree shape, fault position, error kind, event shape) with at least one failed frame",
		Assumptions: []string{
			"go-ethereum's core/state StateDB (snapshots, Copy, IntermediateRoot) is trusted as the state oracle",
			"frames are delimited at the host boundary: Snapshot() call at frame entry .. Exit/End callback",
			"one fault per run, enumerated over every firing position of the baseline run",
		},
		Cases: func(seed uint64, tier string) []Case {
			n := 150
			if !quick(tier) {
				n = 1500
			}
			var cs []Case
			for i := 0; i < n; i++ {
				cs = append(cs, Case{Kind: "tree", Seed: h.Mix(seed, 0xC04, uint64(i))})
			}
			for f := h.Frontier; f <= h.Cancun; f++ {
				cs = append(cs, Case{Kind: "precompiles", P: []int64{int64(f)}})
			}
			return cs
		},
		Run: runC04,
		Floors: func(tier string) map[string]int64 {
			return map[string]int64{"runs": 1500, "failed_frames_checked": 1500, "jp_failures_injected": 800, "pre_jp_failures": 200, "post_jp_failures": 200}
		},
	})
}

// frameMon is the online C04 monitor.
type frameMon struct {
	db        *state.StateDB
	eip158    bool
	snaps     map[int]*state.StateDB
	lastSnap  int
	haveSnap  bool
	stack     []monFrame
	findings  []string
	failedChk int
	// offline attribution
	pending   []int       // seqs of the mutations made since the last instruction callback
	pendingEv []*h.Event  // the same events
	owner     map[int]int // mut seq -> frame id
	frames    []*monFrameRec
	cur       *monFrameRec
	// everything any mutation touched so far (the signature domain)
	addrs    []common.Address
	addrSeen map[common.Address]bool
	keys     map[common.Address][]common.Hash
	keySeen  map[common.Address]map[common.Hash]bool
}

func (m *frameMon) touch(a common.Address) {
	if !m.addrSeen[a] {
		m.addrSeen[a] = true
		m.addrs = append(m.addrs, a)
	}
}

func (m *frameMon) touchKey(a common.Address, k common.Hash) {
	m.touch(a)
	if m.keySeen[a] == nil {
		m.keySeen[a] = map[common.Hash]bool{}
	}
	if !m.keySeen[a][k] {
		m.keySeen[a][k] = true
		m.keys[a] = append(m.keys[a], k)
	}
}

// sig reads (never finalises) everything any mutation touched so far. Because
// every mutation goes through the proxy, two states that agree on this domain
// agree everywhere the execution could have made them differ.
func (m *frameMon) sig(db *state.StateDB) string {
	var b strings.Builder
	for _, a := range m.addrs {
		fmt.Fprintf(&b, "%x:", a[:])
		if !db.Exist(a) {
			b.WriteString("absent;")
			continue
		}
		fmt.Fprintf(&b, "bal=%v,nonce=%d,code=%x,sd=%v", db.GetBalance(a), db.GetNonce(a), db.GetCodeHash(a).Bytes()[:8], db.HasSuicided(a))
		for _, k := range m.keys[a] {
			fmt.Fprintf(&b, ",%x=%x", k[28:], db.GetState(a, k).Bytes())
		}
		b.WriteString(";")
	}
	fmt.Fprintf(&b, "logs=%d", len(db.Logs()))
	// ... and what the state would be committed as: end-of-transaction clean-up deletes empty accounts that were
	// touched, so a touch that survives a failed frame shows here (computed on a copy: the live state is not finalised)
	fmt.Fprintf(&b, " committed-as=%x", db.Copy().IntermediateRoot(m.eip158).Bytes()[:8])
	return b.String()
}

type monFrame struct {
	snap    int
	hasSnap bool
	rec     *monFrameRec
}

type monFrameRec struct {
	id       int
	parent   *monFrameRec
	enterSeq int
	exitSeq  int
	err      string
	typ      byte
	top      bool
}

func newFrameMon(db *state.StateDB, eip158 bool) *frameMon {
	return &frameMon{db: db, eip158: eip158, snaps: map[int]*state.StateDB{}, owner: map[int]int{},
		addrSeen: map[common.Address]bool{}, keys: map[common.Address][]common.Hash{}, keySeen: map[common.Address]map[common.Hash]bool{}}
}

func (m *frameMon) on(e *h.Event) {
	switch e.K {
	case h.KSnapshot:
		m.snaps[e.SnapID] = m.db.Copy()
		m.lastSnap, m.haveSnap = e.SnapID, true
	case h.KMut:
		if e.Mut == h.MSetState {
			m.touchKey(e.Addr, e.Key)
		} else if e.Mut != h.MAddRefund && e.Mut != h.MSubRefund && e.Mut != h.MAddPreimage {
			m.touch(e.Addr)
		}
		// ownership is decided when the window between two instructions closes: a frame entered in this
		// window owns the mutations made on its behalf (value transfer, account creation), wherever the
		// implementation happened to place its snapshot
		m.pending = append(m.pending, e.Seq)
		m.pendingEv = append(m.pendingEv, e)
	case h.KStart, h.KEnter:
		rec := &monFrameRec{id: len(m.frames), parent: m.cur, enterSeq: e.Seq, typ: e.Typ, top: e.K == h.KStart}
		m.frames = append(m.frames, rec)
		f := monFrame{rec: rec}
		if m.haveSnap {
			f.snap, f.hasSnap = m.lastSnap, true
		}
		for i, s := range m.pending {
			pe := m.pendingEv[i]
			callerSide := (pe.Mut == h.MSetNonce && pe.Addr == e.From && pe.Addr != e.To) || pe.Mut == h.MAccessAddr || pe.Mut == h.MAccessSlot || pe.Mut == h.MAddRefund || pe.Mut == h.MSubRefund
			if callerSide {
				if m.cur != nil {
					m.owner[s] = m.cur.id
				} else {
					m.owner[s] = -1
				}
			} else {
				m.owner[s] = rec.id
			}
		}
		m.pending, m.pendingEv = m.pending[:0], m.pendingEv[:0]
		m.haveSnap = false
		m.stack = append(m.stack, f)
		m.cur = rec
	case h.KStep, h.KFault, h.KReturn, h.KInvoke:
		m.flush()
	case h.KExit, h.KEnd:
		m.flush()
		if len(m.stack) == 0 {
			return
		}
		f := m.stack[len(m.stack)-1]
		m.stack = m.stack[:len(m.stack)-1]
		f.rec.exitSeq = e.Seq
		f.rec.err = e.Err
		if e.ErrVal != nil && f.rec.err == "" {
			f.rec.err = "err"
		}
		m.cur = f.rec.parent
		if e.ErrVal != nil && f.hasSnap {
			before := m.snaps[f.snap]
			if before != nil {
				m.failedChk++
				want := m.sig(before)
				got := m.sig(m.db)
				if want != got {
					m.findings = append(m.findings, fmt.Sprintf("frame entered at seq %d (type %#x) ended with error %q but the state at its exit (seq %d) differs from the state at its entry snapshot %d: %s vs %s", f.rec.enterSeq, f.rec.typ, e.ErrText, e.Seq, f.snap, got, want))
				}
			}
		}
	}
}

func (m *frameMon) flush() {
	for _, s := range m.pending {
		if m.cur != nil {
			m.owner[s] = m.cur.id
		} else {
			m.owner[s] = -1
		}
	}
	m.pending, m.pendingEv = m.pending[:0], m.pendingEv[:0]
	m.haveSnap = false
}

func (m *frameMon) committed(id int) bool {
	if id < 0 {
		return true
	}
	for f := m.frames[id]; f != nil; f = f.parent {
		if f.err != "" {
			return false
		}
		if f.exitSeq == 0 {
			return false // never exited: treat as not committed (reported elsewhere)
		}
	}
	return true
}

// replay applies the committed mutations to a copy of the pre-state.
func (m *frameMon) replay(pre *state.StateDB, l *h.Log) *state.StateDB {
	sh := pre
	for i := range l.Events {
		e := &l.Events[i]
		if e.K != h.KMut {
			continue
		}
		id, ok := m.owner[e.Seq]
		if !ok || !m.committed(id) {
			continue
		}
		switch e.Mut {
		case h.MCreateAccount:
			sh.CreateAccount(e.Addr)
		case h.MSubBalance:
			sh.SubBalance(e.Addr, e.Amount)
		case h.MAddBalance:
			sh.AddBalance(e.Addr, e.Amount)
		case h.MSetNonce:
			sh.SetNonce(e.Addr, e.U64)
		case h.MSetCode:
			sh.SetCode(e.Addr, e.Bytes)
		case h.MSetState:
			sh.SetState(e.Addr, e.Key, e.Val)
		case h.MSuicide:
			sh.Suicide(e.Addr)
		case h.MAddLog:
			cp := *e.Log
			sh.AddLog(&cp)
		}
	}
	return sh
}

// checkScenarioRun applies the C04 oracles to one finished run.
func checkC04Run(res *CaseResult, sc *scenario, fs *h.ForkSession, mon *frameMon, pre *state.StateDB, ir h.InvokeResult, label string) {
	res.Count("runs", 1)
	res.Count("failed_frames_checked", int64(mon.failedChk))
	if ir.Panic != "" {
		res.Fail(Key("panic", label), "panic escaped the entry point: "+ir.Panic, sc.desc(), clip(ir.PanicStk, 1500))
		return
	}
	for _, f := range mon.findings {
		res.Fail(Key("failed-frame-state", labelClass(label)), "a failed frame's effects were not rolled back", sc.desc(), label, f)
	}
	// offline replay
	exp := mon.replay(pre, fs.L)
	for _, a := range sc.World.Accts {
		mon.touch(a.Addr)
	}
	if want, got := mon.sig(exp), mon.sig(fs.DB); want != got {
		det := []string{sc.desc(), label, "actual:   " + got, "expected: " + want}
		res.Fail(Key("final-state", labelClass(label)), "final state is not pre-state + effects of exactly the successful frames", det...)
	}
	// a failure reported by a join point must make the surrounding frame fail
	for _, v := range swallowedJPFailures(fs.L) {
		res.Fail(Key("jp-failure-swallowed", labelClass(label)), "a join point reported a failure but the frame it surrounds ended without error (effects kept, caller saw success)", sc.desc(), label, v)
	}
	// caller observes failure
	roots, unb := buildFrames(fs.L)
	if unb != "" {
		res.Fail(Key("unbalanced", labelClass(label)), "tracer stream unbalanced: "+unb, sc.desc(), label)
	}
	var walk func(f *frame)
	walk = func(f *frame) {
		for _, c := range f.children {
			walk(c)
			if c.selfd || c.exit == nil || c.callerStep == nil {
				continue
			}
			// next step of the parent after the child's exit
			var nx *h.Event
			for _, s := range f.steps {
				if s.Seq > c.exit.Seq {
					nx = s
					break
				}
			}
			if nx == nil || len(nx.Stack) == 0 {
				continue
			}
			top := nx.Stack[len(nx.Stack)-1]
			failed := c.exit.ErrVal != nil
			if failed {
				res.Count("failed_frames_seen_by_caller", 1)
				if !top.IsZero() {
					res.Fail(Key("caller-flag", labelClass(label)), "caller saw success for a frame that failed", sc.desc(), label, c.exit.Short(), nx.Short())
				}
			} else if isCallOp(c.callerStep.Op) && !top.Eq(one256) {
				res.Fail(Key("caller-flag-success", labelClass(label)), "caller saw failure for a frame that succeeded", sc.desc(), label, c.exit.Short(), nx.Short())
			}
		}
	}
	// a frame that reports no error must have ended on an instruction that ends a frame normally: anything else
	// is an exceptional halt (out of gas, bad jump, stack, write protection ...) passed off as success, its effects kept
	var halted func(f *frame)
	halted = func(f *frame) {
		for _, c := range f.children {
			halted(c)
		}
		if f.exit == nil || f.exit.ErrVal != nil || len(f.steps) == 0 {
			return
		}
		res.Count("successful_frames_checked", 1)
		if last := f.steps[len(f.steps)-1]; last.Op != h.STOP && last.Op != h.RETURN && last.Op != h.SELFDESTRUCT {
			res.Fail(Key("halt-without-error", labelClass(label)), fmt.Sprintf("a frame stopped at instruction %#x (pc %d, gas %d, cost %d), which does not end a frame, yet reported no error: an exceptional halt was passed off as success and its effects were kept", last.Op, last.PC, last.Gas, last.Cost), sc.desc(), label, f.exit.Short())
		}
	}
	for _, r := range roots {
		halted(r)
	}
	for _, r := range roots {
		walk(r)
		if r.exit != nil && (r.exit.ErrVal != nil) != (ir.Err != nil) {
			res.Fail(Key("top-result", labelClass(label)), "top-level error does not match End callback", sc.desc(), label)
		}
	}
	nfail := 0
	for _, f := range mon.frames {
		if f.err != "" {
			nfail++
		}
	}
	if nfail > 0 {
		res.Shape(sc.desc(), label, shapeOf(fs.L))
	}
}

// swallowedJPFailures lists frames at whose join point the provider or an Aspect reported an
// error although the frame's Exit/End callback carries none.
func swallowedJPFailures(l *h.Log) []string {
	type fr struct {
		enter  *h.Event
		failed string
	}
	var stack []*fr
	var out []string
	for i := range l.Events {
		e := &l.Events[i]
		switch e.K {
		case h.KStart, h.KEnter:
			stack = append(stack, &fr{enter: e})
		case h.KProvider:
			if e.ErrText != "" && len(stack) > 0 {
				stack[len(stack)-1].failed = fmt.Sprintf("provider error at firing %d (%s): %s", e.Firing, e.Pointcut, e.ErrText)
			}
		case h.KAspectExit:
			if e.ErrVal != nil && len(stack) > 0 {
				stack[len(stack)-1].failed = fmt.Sprintf("Aspect failed at seq %d (jp %d): %s", e.Seq, e.JP, e.ErrText)
			}
		case h.KExit, h.KEnd:
			if len(stack) == 0 {
				continue
			}
			f := stack[len(stack)-1]
			stack = stack[:len(stack)-1]
			if f.failed != "" && e.ErrVal == nil {
				out = append(out, fmt.Sprintf("frame entered at seq %d (%s) exited at seq %d without error after: %s", f.enter.Seq, f.enter.Short(), e.Seq, f.failed))
			}
		}
	}
	return out
}

func labelClass(label string) string {
	// "fail@3:pre:generic" -> "pre:generic"
	for i := 0; i < len(label); i++ {
		if label[i] == ':' {
			return label[i+1:]
		}
	}
	return label
}

// monitoredRun runs the scenario with the online frame monitor attached.
func monitoredRun(sc *scenario, plan *h.AspectPlan, jp bool) (*h.ForkSession, *frameMon, *state.StateDB, h.InvokeResult) {
	fs := h.NewForkSession(sc.World, h.EnvSpec{Fork: sc.Fork}, h.ForkOpts{Debug: true, RecSteps: true, LightMem: true, JoinPoints: jp, Plan: plan})
	mon := newFrameMon(fs.DB, fs.Rules.IsEIP158)
	// the per-transaction Prepare happens inside Invoke; take the pre-state copy at the Invoke event
	var pre *state.StateDB
	fs.L.OnAdd = func(e *h.Event) {
		if e.K == h.KInvoke {
			pre = fs.DB.Copy()
		}
		mon.on(e)
	}
	ir := fs.Invoke(sc.Tx)
	return fs, mon, pre, ir
}

type firingInfo struct {
	idx      int
	pointcut string
	contract common.Address
}

func firingsOf(l *h.Log) []firingInfo {
	var out []firingInfo
	for i := range l.Events {
		e := &l.Events[i]
		if e.K == h.KProvider {
			out = append(out, firingInfo{e.Firing, e.Pointcut, e.Addr})
		}
	}
	return out
}

func clonePlan(p *h.AspectPlan) *h.AspectPlan {
	q := &h.AspectPlan{Pre: p.Pre, Post: p.Post, FailAt: map[int]error{}, OnFiring: p.OnFiring}
	return q
}

// precompileFailures: value sent to precompiles that fail (malformed input, too little gas) and, for contrast, that
// succeed - from a nested frame by CALL and CALLCODE and directly as the transaction's target.
func runC04Precompiles(c Case, res *CaseResult) {
	fork := h.Fork(c.P[0])
	type pcall struct {
		addr  byte
		inLen uint64
		gas   uint64
	}
	calls := []pcall{{9, 10, 50000}, {9, 213, 50000}, {6, 64, 50000}, {8, 100, 200000}, {1, 128, 100}, {1, 128, 5000}, {5, 96, 1}, {2, 32, 10}, {2, 32, 5000}, {4, 32, 5000}, {4, 32, 1},
		{0x64, 40, 100}, {0x64, 40, 20000}, {0x65, 32, 100}, {0x66, 7, 20000}, {0x66, 200, 100}, {3, 5, 10}}
	evals := int64(0)
	for _, kind := range []byte{h.CALL, h.CALLCODE} {
		a := h.NewAsm().PushU(1).PushU(0).Op(h.MSTORE).PushU(1).PushU(32).Op(h.MSTORE)
		a.PushU(7).PushU(1).Op(h.SSTORE)
		for i, pc := range calls {
			a.PushU(32).PushU(0x300).PushU(pc.inLen).PushU(0).PushU(uint64(1 + i%4)).PushAddr(common.BytesToAddress([]byte{pc.addr})).PushU(pc.gas).Op(kind)
			a.PushU(uint64(100 + i)).Op(h.SSTORE)
		}
		a.PushU(8).PushU(2).Op(h.SSTORE, h.STOP)
		// the contract is reached through an outer frame so that the precompile calls are nested two deep
		outer := h.NewAsm().PushU(0).PushU(0).PushU(0).PushU(0).PushU(5).PushAddr(h.ContractAddr(1)).PushU(2_000_000).Op(h.CALL).PushU(1).Op(h.SSTORE, h.STOP)
		w := h.BaseWorld([][]byte{outer.Bytes(), a.Bytes()})
		sc := &scenario{Fork: fork, NContract: 2, World: w, Tx: h.TxSpec{Entry: h.ECall, From: h.Sender, To: h.ContractAddr(0), Input: []byte{1}, Gas: 4_000_000, Value: big.NewInt(2)}}
		for _, jp := range []bool{false, true} {
			fs, mon, pre, ir := monitoredRun(sc, nil, jp)
			checkC04Run(res, sc, fs, mon, pre, ir, fmt.Sprintf("precompile-value-%#x:none", kind))
			evals++
			for i := range fs.L.Events {
				e := &fs.L.Events[i]
				if e.K == h.KExit && e.ErrVal != nil {
					res.Count("failed_precompile_frames", 1)
				}
			}
		}
	}
	// the failing precompile as the transaction's own target
	for _, pc := range calls {
		w := h.BaseWorld(nil)
		sc := &scenario{Fork: fork, NContract: 0, World: w, Tx: h.TxSpec{Entry: h.ECall, From: h.Sender, To: common.BytesToAddress([]byte{pc.addr}), Input: make([]byte, pc.inLen), Gas: pc.gas, Value: big.NewInt(9)}}
		fs, mon, pre, ir := monitoredRun(sc, nil, false)
		checkC04Run(res, sc, fs, mon, pre, ir, "precompile-value-top:none")
		evals++
	}
	res.Evals = evals
	res.Set("forks", fork.String())
}

// runC04Refusals: attempts that are refused before a frame exists (value or endowment beyond the balance, creator
// nonce that cannot be incremented, occupied address) between effects of the caller. Such an attempt is a failed frame
// without a body: it may leave nothing behind except what the reference leaves (the nonce bump of a collision).
func runC04Refusals(c Case, res *CaseResult) {
	fork := h.Fork(c.P[0])
	init := h.InitCodeReturning([]byte{0x00})
	huge := new(uint256.Int).Lsh(h.U(1), 120)
	for variant := 0; variant < 4; variant++ {
		a := h.NewAsm().MstoreBytes(0, init)
		a.PushU(7).PushU(1).Op(h.SSTORE)
		a.PushU(uint64(len(init))).PushU(0).PushU(0).Op(h.CREATE).PushU(10).Op(h.SSTORE)
		if fork >= h.Constantinople {
			a.PushU(5).PushU(uint64(len(init))).PushU(0).PushU(0).Op(h.CREATE2).PushU(11).Op(h.SSTORE)
			a.PushU(5).PushU(uint64(len(init))).PushU(0).PushU(0).Op(h.CREATE2).PushU(12).Op(h.SSTORE) // same salt again: occupied
		}
		a.PushU(uint64(len(init))).PushU(0).Push(huge).Op(h.CREATE).PushU(13).Op(h.SSTORE)
		a.PushU(0).PushU(0).PushU(0).PushU(0).Push(huge).PushAddr(h.ContractAddr(1)).PushU(50000).Op(h.CALL).PushU(14).Op(h.SSTORE)
		a.PushU(0).PushU(0).PushU(0).PushU(0).PushU(2).PushAddr(h.ContractAddr(1)).PushU(50000).Op(h.CALL).PushU(15).Op(h.SSTORE)
		a.PushU(8).PushU(2).Op(h.SSTORE, h.STOP)
		callee := h.NewAsm().PushU(1).PushU(0).Op(h.SSTORE, h.STOP)
		w := h.BaseWorld([][]byte{a.Bytes(), callee.Bytes()})
		tx := h.TxSpec{Entry: h.ECall, From: h.Sender, To: h.ContractAddr(0), Input: []byte{1}, Gas: 3_000_000, Value: big.NewInt(1)}
		switch variant {
		case 1: // the creating contract's nonce is at its maximum
			w.Get(h.ContractAddr(0)).Nonce = ^uint64(0)
		case 2: // ... one below
			w.Get(h.ContractAddr(0)).Nonce = ^uint64(0) - 1
		case 3: // the transaction itself is a creation by a sender whose nonce is at its maximum
			w.Get(h.Sender).Nonce = ^uint64(0)
			tx = h.TxSpec{Entry: h.ECreate, From: h.Sender, Input: init, Gas: 1_000_000, Value: big.NewInt(1)}
		}
		sc := &scenario{Fork: fork, NContract: 2, World: w, Tx: tx}
		fs, mon, pre, ir := monitoredRun(sc, nil, variant%2 == 0)
		label := fmt.Sprintf("refusals-%d:none", variant)
		checkC04Run(res, sc, fs, mon, pre, ir, label)
		// what is left behind must be what go-ethereum v1.12.0 leaves behind
		rs := h.NewRefSession(w, h.EnvSpec{Fork: fork}, h.RefOpts{})
		rres := rs.Invoke(tx)
		for _, acct := range w.Accts {
			mon.touch(acct.Addr)
		}
		mon.touch(crypto.CreateAddress(h.ContractAddr(0), 1))
		mon.touch(crypto.CreateAddress(h.ContractAddr(0), ^uint64(0)-1))
		if want, got := mon.sig(rs.DB), mon.sig(fs.DB); want != got || h.ErrClass(rres.Err) != h.ErrClass(ir.Err) {
			res.Fail(Key("refused-attempt-effects", labelClass(label)), "after refused call/create attempts the state differs from what the reference leaves (a refused attempt must leave nothing of its own behind)", sc.desc(), label, "actual:   "+got, "expected: "+want)
		}
		res.Count("refusal_runs", 1)
		res.Evals++
	}
	res.Set("forks", fork.String())
}

func runC04(c Case, tier string) (res CaseResult) {
	if c.Kind == "precompiles" {
		runC04Precompiles(c, &res)
		runC04Refusals(c, &res)
		return
	}
	r := h.NewRNG(c.Seed)
	sc := genScenario(r, scenOpts{FailPct: 25, ValuePct: 50, Extra: func(a *h.Asm, n *node, phase int) {
		// zero-value calls that only TOUCH an account (allowed in static frames too): an existing empty account, a
		// missing one, a precompile, a code-less one with a nonce
		rr := h.NewRNG(h.Mix(c.Seed, uint64(n.ID), uint64(phase), 0x70c4))
		if !rr.Chance(35) {
			return
		}
		tgt := h.Pick(rr, []common.Address{h.EmptyAcct, h.Nobody, common.BytesToAddress([]byte{3}), h.EOAPoor, common.BytesToAddress([]byte{0xee, byte(n.ID)})})
		a.PushU(0).PushU(0).PushU(0).PushU(0).PushU(0).PushAddr(tgt).PushU(2500).Op(h.CALL, h.POP)
	}})
	plan := bindPlan(r, sc, 40, []uint32{0, 10, 1000}, 0)
	evals := int64(0)
	// baseline
	fs, mon, pre, ir := monitoredRun(sc, plan, true)
	evals++
	checkC04Run(&res, sc, fs, mon, pre, ir, "base:none")
	opsCovered(&res, fs.L)
	firings := firingsOf(fs.L)
	res.Count("firings_baseline", int64(len(firings)))
	if c.Seed%37 == 0 {
		res.Sample = map[string]interface{}{"case": c, "scenario": sc.desc(), "baseline_firings": len(firings)}
	}
	// fault enumeration: every firing position x error kind
	for _, f := range firings {
		for kind := 0; kind < 4; kind++ {
			p := clonePlan(plan)
			p.FailAt[f.idx] = injectedErr(kind)
			fs2, mon2, pre2, ir2 := monitoredRun(sc, p, true)
			evals++
			pp := "pre"
			if f.pointcut == "postContractCall" {
				pp = "post"
			}
			label := fmt.Sprintf("fail@%d:%s:%s", f.idx, pp, injectedErrNames[kind])
			checkC04Run(&res, sc, fs2, mon2, pre2, ir2, label)
			res.Count("jp_failures_injected", 1)
			res.Count(pp+"_jp_failures", 1)
			res.Set("fault_kinds", pp+":"+injectedErrNames[kind])
		}
	}
	// real failing Aspects: trap and gas exhaustion at a random bound contract
	for variant := 0; variant < 2; variant++ {
		p := bindPlan(h.NewRNG(c.Seed^uint64(variant+7)), sc, 50, []uint32{10, 100_000_000}, 30)
		fs3, mon3, pre3, ir3 := monitoredRun(sc, p, true)
		evals++
		checkC04Run(&res, sc, fs3, mon3, pre3, ir3, fmt.Sprintf("wasm%d:real-aspect-failure", variant))
		for i := range fs3.L.Events {
			e := &fs3.L.Events[i]
			if e.K == h.KAspectExit && e.ErrVal != nil {
				res.Count("real_aspect_failures", 1)
				res.Set("real_aspect_errors", clip(e.ErrText, 50))
			}
		}
	}
	// join points off
	fs4, mon4, pre4, ir4 := monitoredRun(sc, plan, false)
	evals++
	checkC04Run(&res, sc, fs4, mon4, pre4, ir4, "off:jp-disabled")
	res.Evals = evals
	res.Set("forks", sc.Fork.String())
	return
}
