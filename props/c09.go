package props

import (
	"bytes"
	"fmt"
	"math/big"
	"strings"

	h "verif/harness"
	"verif/models/keyreg"
	"verif/models/sollayout"

	avm "github.com/artela-network/artela-evm/vm"
	"github.com/ethereum/go-ethereum/common"
	"github.com/ethereum/go-ethereum/crypto"
	"github.com/holiman/uint256"
)

// C09 — journaled values equal the decoded storage content at the moment of journaling.

var c09Words = func() [][32]byte {
	var ws [][32]byte
	var w [32]byte
	ws = append(ws, w) // all zero
	for i := range w {
		w[i] = 0xff
	}
	ws = append(ws, w)
	for i := range w {
		w[i] = byte(i + 1)
	}
	ws = append(ws, w) // 01 02 .. 20: every byte distinct
	var lz [32]byte
	lz[20], lz[31] = 0xaa, 0xbb // leading zero bytes
	ws = append(ws, lz)
	var tz [32]byte
	tz[0], tz[5] = 0xcc, 0xdd // trailing zero bytes
	ws = append(ws, tz)
	copy(w[:], crypto.Keccak256([]byte("c09 random word")))
	ws = append(ws, w)
	return ws
}()

var c09Forks = []h.Fork{h.Frontier, h.Byzantium, h.Istanbul, h.Berlin, h.London, h.Shanghai, h.Cancun}

func init() {
	Register(&Prop{
		ID:    "C09",
		Level: "exploration",
		Rule: "single-purpose programs (register a variable, then one value-journal or reference-journal instruction) run on the real VM over prepared storage; the recorded bytes (Variable() and Slot()) are compared with an independent Solidity-layout decoder (models/sollayout) applied to the same storage; operands outside the decoder's domain must end the frame in an error and record nothing. " +
			"kind grid: ALL (offset,width) in [0,33]x[0,33] plus boundary values up to 2^256-1, for 6 storage words (exhaustive for that grid); kind str: strings of every length 0..100 and 127,128,255,256,1000 x content classes {random, all zero, leading zeros, trailing zeros, 0xff} x slots {small, 2^64, hashed positions}, and every invalid length encoding (short form with length >= 32, long form with length < 32); kind mix: random programs that overwrite the variable between journals (SSTORE then journal, repeatedly) checked by an online monitor that decodes state at the journal step; kind frames: multi-frame call trees (same slot number journaled by different accounts, after reverted writes, without a store in between) under the same online decoder; " +
			"distinct_nontrivial = distinct (instruction, operand class, word/content class, outcome) combinations observed",
		Assumptions: []string{
			"width = 0 is asserted only not to crash (the statement does not say whether it denotes a field)",
			"string lengths above 4096 are outside this check (work bounds are C20's subject)",
		},
		Exhaustive: func(tier string) bool { return false },
		Cases: func(seed uint64, tier string) []Case {
			var cs []Case
			for w := range c09Words {
				for o := 0; o <= 33; o++ {
					cs = append(cs, Case{Kind: "grid", P: []int64{int64(w), int64(o)}})
				}
				cs = append(cs, Case{Kind: "gridhuge", P: []int64{int64(w)}})
			}
			for l := 0; l <= 100; l++ {
				cs = append(cs, Case{Kind: "str", P: []int64{int64(l)}, Seed: h.Mix(seed, 0xC09, uint64(l))})
			}
			for _, l := range []int64{127, 128, 255, 256, 1000, 4096} {
				cs = append(cs, Case{Kind: "str", P: []int64{l}, Seed: h.Mix(seed, 0xC09, uint64(l))})
			}
			cs = append(cs, Case{Kind: "badenc"})
			n := 150
			if !quick(tier) {
				n = 20000
			}
			for i := 0; i < n; i++ {
				cs = append(cs, Case{Kind: "mix", Seed: h.Mix(seed, 0xC09A, uint64(i))})
			}
			// multi-frame programs: the same slot number journaled by different accounts / after reverted writes / without a store in between
			for i := 0; i < n/3; i++ {
				cs = append(cs, Case{Kind: "frames", Seed: h.Mix(seed, 0xC09B, uint64(i))})
			}
			return cs
		},
		Run: runC09,
		Floors: func(tier string) map[string]int64 {
			return map[string]int64{"value_journals_checked": 2500, "string_journals_checked": 1500, "rejections_checked": 500}
		},
	})
}

type c09Result struct {
	ir      h.InvokeResult
	changes *avm.StorageChanges
	bySlot  *avm.StorageChanges
	slotErr error
}

// runJournalProgram runs code at contract 0 with the given storage and returns what was recorded for variable `name`.
func runJournalProgram(fork h.Fork, code []byte, storage map[common.Hash]common.Hash, name string, slot *uint256.Int, off *uint256.Int, typ *uint256.Int) c09Result {
	w := h.BaseWorld([][]byte{code})
	for k, v := range storage {
		w.Get(h.ContractAddr(0)).Storage[k] = v
	}
	fs := h.NewForkSession(w, h.EnvSpec{Fork: fork}, h.ForkOpts{})
	ir := fs.Invoke(h.TxSpec{Entry: h.ECall, From: h.Sender, To: h.ContractAddr(0), Gas: 3_000_000})
	sc := fs.EVM.Tracer().StateChanges()
	r := c09Result{ir: ir, changes: sc.Variable(h.ContractAddr(0), name)}
	r.bySlot, r.slotErr = sc.Slot(h.ContractAddr(0), slot, off, typ.Bytes32())
	return r
}

func offClass(o *big.Int) string {
	switch {
	case o.Cmp(big.NewInt(31)) <= 0:
		return "le31"
	case o.Cmp(big.NewInt(33)) <= 0:
		return o.String()
	case o.IsUint64():
		return "u64"
	default:
		return "big"
	}
}

func checkValueJournal(res *CaseResult, fork h.Fork, wi int, off, width *big.Int) {
	word := c09Words[wi]
	slot := h.U(3)
	typ := h.TypeID(1)
	regOff := new(big.Int).Set(off)
	if off.Cmp(big.NewInt(31)) > 0 {
		regOff = big.NewInt(0)
	}
	o256, _ := uint256.FromBig(off)
	w256, _ := uint256.FromBig(width)
	r256, _ := uint256.FromBig(regOff)
	a := h.NewAsm()
	a.MstoreName(0, []byte("v"))
	a.Journal(h.VSVJNAL, h.U(0), slot, r256, typ)
	a.Journal(h.VVJNAL, slot, o256, w256, typ)
	a.Op(h.STOP)
	r := runJournalProgram(fork, a.Bytes(), map[common.Hash]common.Hash{common.Hash(slot.Bytes32()): common.Hash(word)}, "v", slot, r256, typ)
	desc := fmt.Sprintf("fork=%s word=%x offset=%s width=%s", fork, word, off, width)
	want, err := sollayout.ValueField(word, off, width)
	cls := "valid"
	if err != nil {
		cls = "invalid"
	}
	res.Shape("vv", wi, offClass(off), offClass(width), cls)
	if r.ir.Panic != "" {
		res.Fail(Key("panic", "VVJNAL", "off-"+offClass(off)+"-width-"+offClass(width)), "value-journal instruction panicked: "+firstLine(r.ir.Panic), desc, clip(r.ir.PanicStk, 1500))
		return
	}
	if err != nil {
		res.Count("rejections_checked", 1)
		if r.ir.Err == nil {
			res.Fail(Key("not-rejected", "VVJNAL", "off-"+offClass(off)+"-width-"+offClass(width)), "operands that do not denote a packed field were accepted", desc, "recorded: "+canonReal(r.changes))
		} else if r.changes != nil && len(r.changes.Changes()) > 0 {
			res.Fail(Key("recorded-on-reject", "VVJNAL"), "a rejected value journal left a record", desc, canonReal(r.changes))
		}
		return
	}
	if width.Sign() == 0 {
		res.Count("width0_nocrash", 1)
		return
	}
	res.Count("value_journals_checked", 1)
	if r.ir.Err != nil {
		res.Fail(Key("rejected-valid", "VVJNAL"), "a valid packed field was rejected: "+r.ir.Err.Error(), desc)
		return
	}
	wantC := keyreg.Canon(map[uint64][][]byte{0: {want}})
	if got := canonReal(r.changes); got != wantC {
		res.Fail(Key("wrong-bytes", "VVJNAL"), "value journal recorded bytes that differ from the packed field", desc, "recorded: "+got, "expected: "+wantC)
	}
	if got := canonReal(r.bySlot); got != wantC || r.slotErr != nil {
		res.Fail(Key("wrong-bytes-by-slot", "VVJNAL"), "lookup by slot returns different bytes", desc, "recorded: "+got, "expected: "+wantC)
	}
}

var c09Slots = func() []*uint256.Int {
	out := []*uint256.Int{h.U(0), h.U(1), h.U(5), h.U(7), h.U(255), h.U(256), new(uint256.Int).Lsh(h.U(1), 64)}
	out = append(out, new(uint256.Int).SetBytes(crypto.Keccak256(common.LeftPadBytes([]byte{1}, 32), common.LeftPadBytes([]byte{2}, 32))))
	out = append(out, new(uint256.Int).Not(h.U(0)))
	// slots whose data area keccak256(slot) ends in 0xff, 0xfe, 0xfd and 0xffff (the walk over a multi-slot string then
	// carries into the next byte, or two) and one that ends in 0x00
	want := map[string]bool{"ff": true, "fe": true, "fd": true, "ffff": true, "00": true}
	for i := uint64(300); len(want) > 0 && i < 400000; i++ {
		k := crypto.Keccak256(common.LeftPadBytes(new(big.Int).SetUint64(i).Bytes(), 32))
		for _, tag := range []string{fmt.Sprintf("%02x%02x", k[30], k[31]), fmt.Sprintf("%02x", k[31])} {
			if want[tag] {
				delete(want, tag)
				out = append(out, h.U(i))
				break
			}
		}
	}
	return out
}()

func contentClass(r *h.RNG, l int, cls int) []byte {
	b := r.Bytes(l)
	for i := range b {
		if b[i] == 0 {
			b[i] = 0x5a
		}
	}
	switch cls {
	case 1: // all zero
		for i := range b {
			b[i] = 0
		}
	case 2: // leading zeros
		for i := 0; i < len(b) && i < 1+l/3; i++ {
			b[i] = 0
		}
	case 3: // trailing zeros
		for i := len(b) - 1; i >= 0 && i >= len(b)-1-l/3; i-- {
			b[i] = 0
		}
	case 4:
		for i := range b {
			b[i] = 0xff
		}
	}
	return b
}

var contentClassNames = []string{"random", "allzero", "leadingzeros", "trailingzeros", "ff"}

func lenClass(l int) string {
	switch {
	case l == 0:
		return "0"
	case l < 31:
		return "1-30"
	case l == 31:
		return "31"
	case l == 32:
		return "32"
	case l <= 64:
		return "33-64"
	default:
		return ">64"
	}
}

func storageFrom(m map[[32]byte][32]byte) map[common.Hash]common.Hash {
	out := map[common.Hash]common.Hash{}
	for k, v := range m {
		out[common.Hash(k)] = common.Hash(v)
	}
	return out
}

func refJournalProgram(slot, typ *uint256.Int) []byte {
	a := h.NewAsm()
	a.MstoreName(0, []byte("s"))
	a.Journal(h.RSVJNAL, h.U(0), slot, typ)
	a.Journal(h.VRJNAL, slot, typ)
	a.Op(h.STOP)
	return a.Bytes()
}

func checkStringJournal(res *CaseResult, fork h.Fork, slot *uint256.Int, content []byte, ccls string) {
	typ := h.TypeID(2)
	st := storageFrom(sollayout.EncodeString(slot.Bytes32(), content))
	r := runJournalProgram(fork, refJournalProgram(slot, typ), st, "s", slot, nil, typ)
	desc := fmt.Sprintf("fork=%s slot=%s len=%d content(%s)=%x", fork, slot.Hex(), len(content), ccls, clipB(content))
	slotCls := "small"
	if !slot.IsUint64() {
		slotCls = "big"
	}
	res.Shape("vr", lenClass(len(content)), ccls, slotCls)
	res.Count("string_journals_checked", 1)
	locus := "len-" + lenClass(len(content)) + "-" + ccls
	if r.ir.Panic != "" {
		res.Fail(Key("panic", "VRJNAL", locus), "reference-journal instruction panicked: "+firstLine(r.ir.Panic), desc, clip(r.ir.PanicStk, 1500))
		return
	}
	if r.ir.Err != nil {
		res.Fail(Key("rejected-valid", "VRJNAL", locus), "a valid stored string was rejected: "+r.ir.Err.Error(), desc)
		return
	}
	wantC := keyreg.Canon(map[uint64][][]byte{0: {content}})
	if got := canonReal(r.changes); got != wantC {
		res.Fail(Key("wrong-bytes", "VRJNAL", locus), "reference journal recorded bytes that differ from the stored string", desc, "recorded: "+clip(got, 300), "expected: "+clip(wantC, 300))
	}
}

func runC09(c Case, tier string) (res CaseResult) {
	switch c.Kind {
	case "grid":
		wi, o := int(c.P[0]), c.P[1]
		n := int64(0)
		for w := int64(0); w <= 33; w++ {
			fork := c09Forks[int(o+w)%len(c09Forks)]
			checkValueJournal(&res, fork, wi, big.NewInt(o), big.NewInt(w))
			n++
		}
		res.Evals = n
		if wi == 2 && o == 3 {
			res.Sample = map[string]interface{}{"kind": "grid", "word": fmt.Sprintf("%x", c09Words[wi]), "offset": o, "widths": "0..33", "example": "offset 3 width 2 -> bytes 0x1c1d"}
		}
	case "gridhuge":
		wi := int(c.P[0])
		huge := []*big.Int{big.NewInt(34), big.NewInt(255), big.NewInt(256), big.NewInt(257), new(big.Int).Lsh(big.NewInt(1), 32), new(big.Int).Lsh(big.NewInt(1), 63),
			new(big.Int).Sub(new(big.Int).Lsh(big.NewInt(1), 64), big.NewInt(1)), new(big.Int).Lsh(big.NewInt(1), 64), new(big.Int).Add(new(big.Int).Lsh(big.NewInt(1), 64), big.NewInt(3)),
			new(big.Int).Lsh(big.NewInt(1), 255), big256m1()}
		small := []*big.Int{big.NewInt(0), big.NewInt(1), big.NewInt(16), big.NewInt(31), big.NewInt(32)}
		n := int64(0)
		for _, hv := range huge {
			for _, sv := range small {
				checkValueJournal(&res, h.Shanghai, wi, hv, sv)
				checkValueJournal(&res, h.Shanghai, wi, sv, hv)
				n += 2
			}
			checkValueJournal(&res, h.Shanghai, wi, hv, hv)
			n++
		}
		res.Evals = n
	case "str":
		l := int(c.P[0])
		r := h.NewRNG(c.Seed)
		n := int64(0)
		for cls := 0; cls < 5; cls++ {
			content := contentClass(r, l, cls)
			for si, slot := range c09Slots {
				if l > 256 && si%3 != 0 {
					continue
				}
				checkStringJournal(&res, c09Forks[(l+si)%len(c09Forks)], slot, content, contentClassNames[cls])
				n++
			}
		}
		res.Evals = n
		if l == 33 {
			res.Sample = map[string]interface{}{"kind": "str", "length": l, "classes": contentClassNames, "slots": len(c09Slots)}
		}
	case "badenc":
		typ := h.TypeID(2)
		n := int64(0)
		for _, slot := range c09Slots[:4] {
			var cases [][32]byte
			// short form (even low byte) with length >= 32
			for _, lb := range []byte{64, 66, 128, 0xfe} {
				var w [32]byte
				w[31] = lb
				w[0] = 0x41
				cases = append(cases, w)
			}
			// long form (odd) with length < 32
			for l := 0; l < 32; l++ {
				var w [32]byte
				w[31] = byte(2*l + 1)
				cases = append(cases, w)
			}
			for _, w := range cases {
				st := map[common.Hash]common.Hash{common.Hash(slot.Bytes32()): common.Hash(w)}
				r := runJournalProgram(h.Shanghai, refJournalProgram(slot, typ), st, "s", slot, nil, typ)
				desc := fmt.Sprintf("slot=%s length word=%x", slot.Hex(), w)
				n++
				res.Count("rejections_checked", 1)
				res.Shape("badenc", w[31]&1, w[31] >= 64)
				if r.ir.Panic != "" {
					res.Fail(Key("panic", "VRJNAL", "invalid-encoding"), "reference-journal instruction panicked: "+firstLine(r.ir.Panic), desc, clip(r.ir.PanicStk, 1500))
					continue
				}
				if r.ir.Err == nil {
					res.Fail(Key("not-rejected", "VRJNAL", "invalid-encoding"), "an invalid string length encoding was accepted", desc, "recorded: "+canonReal(r.changes))
				} else if r.changes != nil && len(r.changes.Changes()) > 0 {
					res.Fail(Key("recorded-on-reject", "VRJNAL"), "a rejected reference journal left a record", desc)
				}
			}
		}
		res.Evals = n
	case "mix":
		runC09Mix(c, &res)
	case "frames":
		// C10's call trees under the value oracle only: recorded bytes must equal the value decoded at the journal step
		var tmp CaseResult
		journalWorkload(c, &tmp, func(jr journalRun, label string) { checkC10(&tmp, jr, label) })
		for _, f := range tmp.Findings {
			if strings.HasPrefix(f.Key, "wrong-entries") || strings.HasPrefix(f.Key, "panic") {
				res.Fail("frames:"+f.Key, "in a multi-frame program: "+f.Msg, f.Detail...)
			}
		}
		res.Count("value_journals_checked", tmp.Obs["journal_entries_checked"])
		res.Count("multi_frame_runs", tmp.Obs["runs"])
		res.Shapes = append(res.Shapes, tmp.Shapes...)
		res.Evals = tmp.Evals
	}
	return
}

// runC09Mix: a program that repeatedly overwrites packed fields / strings and journals them;
// an online monitor decodes the state at every journal step and the recorded lists must equal
// the chronological list of decoded values (immediate repeats collapsed).
func runC09Mix(c Case, res *CaseResult) {
	r := h.NewRNG(c.Seed)
	fork := h.Pick(r, c09Forks)
	a := h.NewAsm()
	type vdef struct {
		name       string
		slot       *uint256.Int
		off, width uint64
		typ        *uint256.Int
		isStr      bool
	}
	vars := []vdef{
		{name: "a", slot: h.U(0), off: 0, width: 16, typ: h.TypeID(1)},
		{name: "b", slot: h.U(0), off: 16, width: uint64(1 + r.Intn(16)), typ: h.TypeID(2)},
		{name: "c", slot: h.U(1), off: uint64(r.Intn(32)), width: 0, typ: h.TypeID(3)},
		{name: "s", slot: h.U(2), isStr: true, typ: h.TypeID(4)},
	}
	vars[2].width = uint64(1 + r.Intn(int(32-vars[2].off)))
	for i, v := range vars {
		a.MstoreName(uint64(0x100*i), []byte(v.name))
		if v.isStr {
			a.Journal(h.RSVJNAL, h.U(uint64(0x100*i)), v.slot, v.typ)
		} else {
			a.Journal(h.VSVJNAL, h.U(uint64(0x100*i)), v.slot, h.U(v.off), v.typ)
		}
	}
	n := 3 + r.Intn(10)
	for i := 0; i < n; i++ {
		v := vars[r.Intn(len(vars))]
		if r.Chance(70) {
			// overwrite
			if v.isStr {
				content := contentClass(r, h.Pick(r, []int{0, 1, 5, 30, 31, 32, 33, 40, 64, 65, 90}), r.Intn(5))
				for k, w := range sollayout.EncodeString(v.slot.Bytes32(), content) {
					a.Push32(new(uint256.Int).SetBytes32(w[:])).Push32(new(uint256.Int).SetBytes32(k[:])).Op(h.SSTORE)
				}
			} else {
				val := r.U256()
				if r.Chance(30) {
					val = uint256.NewInt(uint64(r.Intn(3)))
				}
				a.Push32(val).Push(v.slot).Op(h.SSTORE)
			}
		}
		if v.isStr {
			a.Journal(h.VRJNAL, v.slot, v.typ)
		} else {
			a.Journal(h.VVJNAL, v.slot, h.U(v.off), h.U(v.width), v.typ)
		}
	}
	a.Op(h.STOP)
	w := h.BaseWorld([][]byte{a.Bytes()})
	fs := h.NewForkSession(w, h.EnvSpec{Fork: fork}, h.ForkOpts{Debug: true, RecSteps: true, LightMem: true})
	expect := map[string][][]byte{}
	var monErr string
	fs.Rec.OnStep = func(e *h.Event, scope *avm.ScopeContext) {
		if e.Err != "" || (e.Op != h.VVJNAL && e.Op != h.VRJNAL) {
			return
		}
		st := e.Stack
		read := func(slot [32]byte) [32]byte { return fs.DB.GetState(e.Addr, common.Hash(slot)) }
		top := func(i int) *uint256.Int { return &st[len(st)-1-i] }
		var val []byte
		var err error
		var name string
		slot := top(0)
		for _, v := range vars {
			if v.slot.Eq(slot) && ((e.Op == h.VRJNAL) == v.isStr) && (v.isStr || v.off == top(1).Uint64()) {
				name = v.name
			}
		}
		if e.Op == h.VVJNAL {
			val, err = sollayout.ValueField(read(slot.Bytes32()), top(1).ToBig(), top(2).ToBig())
		} else {
			val, err = sollayout.String(read, slot.Bytes32(), 4096)
		}
		if err != nil {
			monErr = fmt.Sprintf("monitor could not decode at pc=%d: %v", e.PC, err)
			return
		}
		l := expect[name]
		if len(l) > 0 && bytes.Equal(l[len(l)-1], val) {
			return
		}
		expect[name] = append(l, val)
	}
	ir := fs.Invoke(h.TxSpec{Entry: h.ECall, From: h.Sender, To: h.ContractAddr(0), Gas: 5_000_000})
	desc := fmt.Sprintf("fork=%s code=%x", fork, a.Bytes())
	if ir.Panic != "" {
		res.Fail(Key("panic", "mix"), "journal program panicked: "+firstLine(ir.Panic), clip(desc, 3000), clip(ir.PanicStk, 1500))
		return
	}
	if ir.Err != nil {
		res.Fail(Key("mix-error", "journal"), "a program of well-formed journal instructions failed: "+ir.Err.Error(), clip(desc, 3000))
		return
	}
	if monErr != "" {
		res.Fail(Key("harness", "mix"), monErr, clip(desc, 3000))
		return
	}
	sc := fs.EVM.Tracer().StateChanges()
	for _, v := range vars {
		got := canonReal(sc.Variable(h.ContractAddr(0), v.name))
		want := "<nil>"
		if l, ok := expect[v.name]; ok {
			want = keyreg.Canon(map[uint64][][]byte{0: l})
		}
		if v.isStr {
			res.Count("string_journals_checked", int64(len(expect[v.name])))
		} else {
			res.Count("value_journals_checked", int64(len(expect[v.name])))
		}
		if got != want {
			res.Fail(Key("wrong-sequence", map[bool]string{true: "VRJNAL", false: "VVJNAL"}[v.isStr]), "recorded list differs from the values decoded from storage at each journal step", "variable "+v.name, "recorded: "+clip(got, 600), "expected: "+clip(want, 600), clip(desc, 3000))
		}
	}
	res.Shape("mix", shapeOf(fs.L))
	if c.Seed%41 == 0 {
		res.Sample = map[string]interface{}{"kind": "mix", "fork": fork.String(), "journals": n, "code": fmt.Sprintf("%x", clipB(a.Bytes()))}
	}
}
