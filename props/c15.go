package props

import (
	"bytes"
	"fmt"
	"math/big"

	h "verif/harness"

	"github.com/ethereum/go-ethereum/common"
	"github.com/holiman/uint256"
)

// C15 — Cancun additions behave per EIP-1153 (transient storage) and EIP-5656 (MCOPY).
// Online specification monitors over the step stream + a differential for transient
// storage against go-ethereum v1.12.0 (Shanghai + EIP-1153 at its own opcode bytes).

type tkey struct {
	a common.Address
	k common.Hash
}

// memGas is the yellow-paper memory cost of `words` 32-byte words.
func memGas(words uint64) uint64 { return words*words/512 + 3*words }

type c15Frame struct {
	static   bool
	journal  []func()         // undo log of transient writes made in this frame (and merged children)
	pending  func(e *h.Event) // check to run at the next step of this frame
	selfdest bool
}

// c15Monitor checks one recorded log (RecSteps with full memory). Returns findings (rule, msg).
func c15Monitor(l *h.Log, topStatic bool, res *CaseResult) [][2]string {
	var out [][2]string
	add := func(rule, msg string) { out = append(out, [2]string{rule, msg}) }
	ts := map[tkey]common.Hash{}
	var stack []*c15Frame
	for i := range l.Events {
		e := &l.Events[i]
		switch e.K {
		case h.KInvoke:
			// a new transaction: transient storage starts empty (the harness calls Prepare like a chain does)
			ts = map[tkey]common.Hash{}
			stack = stack[:0]
			topStatic = h.Entry(e.Typ) == h.EStaticCall
		case h.KStart:
			stack = append(stack, &c15Frame{static: topStatic})
		case h.KEnter:
			st := e.Typ == h.STATICCALL
			if len(stack) > 0 && stack[len(stack)-1].static {
				st = true
			}
			if len(stack) == 0 {
				st = st || topStatic
			}
			stack = append(stack, &c15Frame{static: st, selfdest: e.Typ == h.SELFDESTRUCT})
		case h.KExit, h.KEnd:
			if len(stack) == 0 {
				continue
			}
			f := stack[len(stack)-1]
			stack = stack[:len(stack)-1]
			if e.ErrVal != nil {
				for j := len(f.journal) - 1; j >= 0; j-- {
					f.journal[j]()
				}
			} else if len(stack) > 0 {
				p := stack[len(stack)-1]
				p.journal = append(p.journal, f.journal...)
			}
		case h.KStep:
			if len(stack) == 0 {
				continue
			}
			f := stack[len(stack)-1]
			if f.pending != nil {
				chk := f.pending
				f.pending = nil
				chk(e)
			}
			if e.Err != "" {
				continue
			}
			n := len(e.Stack)
			faulted := func() (bool, string) {
				for j := i + 1; j < len(l.Events); j++ {
					x := &l.Events[j]
					if x.K == h.KFault {
						return x.PC == e.PC && x.Depth == e.Depth, x.Err
					}
					if x.K == h.KStep || x.K == h.KExit || x.K == h.KEnd || x.K == h.KEnter {
						return false, ""
					}
				}
				return false, ""
			}
			switch e.Op {
			case h.TLOAD:
				if n < 1 {
					continue
				}
				res.Count("tloads_checked", 1)
				if e.Cost != 100 {
					add("tload-cost", fmt.Sprintf("TLOAD charged %d gas (EIP-1153: 100)", e.Cost))
				}
				if bad, cls := faulted(); bad {
					// (its gas and stack needs were met: the step was announced with its cost and an operand)
					add("tload-refused", fmt.Sprintf("TLOAD at pc %d failed with %q (static=%v): a transient load is a read and must succeed in every context", e.PC, cls, f.static))
				}
				want := ts[tkey{e.Addr, common.Hash(e.Stack[n-1].Bytes32())}]
				pc, addr := e.PC, e.Addr
				hgt := n
				f.pending = func(nx *h.Event) {
					if len(nx.Stack) != hgt {
						return
					}
					if got := common.Hash(nx.Stack[hgt-1].Bytes32()); got != want {
						add("tload-value", fmt.Sprintf("TLOAD at pc %d of %s pushed %x, the transient store of that address holds %x (per-address, restored on revert, empty at transaction start)", pc, addr.Hex(), got, want))
					}
				}
			case h.TSTORE:
				if n < 2 {
					continue
				}
				res.Count("tstores_checked", 1)
				if e.Cost != 100 {
					add("tstore-cost", fmt.Sprintf("TSTORE charged %d gas (EIP-1153: 100)", e.Cost))
				}
				bad, cls := faulted()
				if f.static {
					res.Count("static_tstores_checked", 1)
					if !bad || cls != "write_protection" {
						add("tstore-static", fmt.Sprintf("TSTORE at pc %d executed in a static context (must be refused with a write-protection error; got %q)", e.PC, cls))
					}
					continue
				}
				if bad {
					add("tstore-refused", fmt.Sprintf("TSTORE at pc %d failed with %q in a non-static context", e.PC, cls))
					continue
				}
				k := tkey{e.Addr, common.Hash(e.Stack[n-1].Bytes32())}
				old, had := ts[k]
				ts[k] = common.Hash(e.Stack[n-2].Bytes32())
				f.journal = append(f.journal, func() {
					if had {
						ts[k] = old
					} else {
						delete(ts, k)
					}
				})
			case h.MCOPY:
				if n < 3 {
					continue
				}
				dst, src, ln := &e.Stack[n-1], &e.Stack[n-2], &e.Stack[n-3]
				res.Count("mcopies_checked", 1)
				if !ln.IsZero() && (!dst.IsUint64() || !src.IsUint64() || !ln.IsUint64() || dst.Uint64() > 1<<40 || src.Uint64() > 1<<40 || ln.Uint64() > 1<<40) {
					add("mcopy-huge-accepted", fmt.Sprintf("MCOPY(dst=%s, src=%s, len=%s) was accepted: covering that range costs more gas than exists", dst.Hex(), src.Hex(), ln.Hex()))
					continue
				}
				if e.Mem == nil && e.MemLen > 0 {
					continue
				}
				oldLen := uint64(e.MemLen)
				newLen := oldLen
				length := ln.Uint64()
				var d, s uint64
				if length > 0 {
					d, s = dst.Uint64(), src.Uint64()
					m := d
					if s > m {
						m = s
					}
					need := (m + length + 31) / 32 * 32
					if need > newLen {
						newLen = need
					}
				}
				wantCost := 3 + 3*((length+31)/32) + memGas(newLen/32) - memGas(oldLen/32)
				if e.Cost != wantCost {
					add("mcopy-cost", fmt.Sprintf("MCOPY(dst=%d, src=%d, len=%d) with %d bytes of memory charged %d gas, EIP-5656 says %d (3 + 3*words + expansion)", d, s, length, oldLen, e.Cost, wantCost))
				}
				if newLen > 1<<22 {
					continue
				}
				exp := make([]byte, newLen)
				copy(exp, e.Mem)
				if length > 0 {
					tmp := append([]byte{}, exp[s:s+length]...)
					copy(exp[d:d+length], tmp)
				}
				dd, ss, ll := d, s, length
				f.pending = func(nx *h.Event) {
					if nx.Mem == nil && nx.MemLen > 0 {
						return
					}
					if uint64(nx.MemLen) != newLen {
						add("mcopy-msize", fmt.Sprintf("after MCOPY(dst=%d, src=%d, len=%d) memory is %d bytes, expected %d (expand to cover both ranges, unchanged for len 0)", dd, ss, ll, nx.MemLen, newLen))
						return
					}
					if !bytes.Equal(nx.Mem, exp) {
						add("mcopy-content", fmt.Sprintf("after MCOPY(dst=%d, src=%d, len=%d) memory differs from an overlap-safe memmove on the zero-extended memory", dd, ss, ll))
					}
				}
			}
		}
	}
	return out
}

func c15Scenario(seed uint64) *scenario {
	r := h.NewRNG(seed)
	extra := func(a *h.Asm, n *node, phase int) {
		rr := h.NewRNG(h.Mix(seed, uint64(n.ID), uint64(phase), 0x15))
		k := 1 + rr.Intn(3)
		for i := 0; i < k; i++ {
			slot := uint64(rr.Intn(3))
			switch rr.Intn(5) {
			case 0, 1:
				a.PushU(slot).Op(h.TLOAD, h.POP)
			case 2, 3:
				if !n.Static || (phase == 1 && rr.Chance(30)) {
					a.PushU(uint64(1 + rr.Intn(200))).PushU(slot).Op(h.TSTORE)
				} else {
					a.PushU(slot).Op(h.TLOAD, h.POP)
				}
			default:
				a.PushU(uint64(rr.Intn(70))).PushU(uint64(rr.Intn(100))).PushU(uint64(rr.Intn(100))).Op(h.MCOPY)
			}
		}
	}
	return genScenario(r, scenOpts{FailPct: 30, ValuePct: 20, MinFork: h.Cancun, MaxFork: h.Cancun, MaxNodes: 9, Extra: extra,
		Kinds: []byte{h.CALL, h.CALL, h.CALL, h.DELEGATECALL, h.CALLCODE, h.STATICCALL, h.STATICCALL, h.CREATE}})
}

func init() {
	Register(&Prop{
		ID:    "C15",
		Level: "exploration",
		Rule: "kind gen: generated programs (Cancun rules) mixing TLOAD/TSTORE/MCOPY (operands small, at boundaries and huge) with every call kind, reverts, re-entrancy and two transactions on one state, under online specification monitors: a shadow transient store (per address, journalled per frame, restored when a frame fails, emptied at each transaction start) predicts every TLOAD result; TSTORE in a static frame must fail with write protection; both cost 100; after every MCOPY the next step's memory must equal an overlap-safe memmove on the zero-extended pre-memory, MSIZE = max(old, ceil32(max(dst,src)+len)) (unchanged for len 0), cost = 3+3*words+expansion, out-of-range operands must not be accepted; " +
			"kind tree: call trees with static frames nested in static frames that try TSTORE after nested static calls returned; kind diff: transient-storage programs run on the fork under Cancun and on go-ethereum v1.12.0 under Shanghai+EIP-1153 with TLOAD/TSTORE re-emitted at upstream's bytes 0xb3/0xb4 (same pcs), outcomes compared; kind pre: on every fork before Cancun the bytes 0x5c/0x5d/0x5e must be invalid instructions; distinct_nontrivial = distinct event shapes containing a Cancun instruction",
		Assumptions: []string{"EIP-1153 / EIP-5656 as published; go-ethereum v1.12.0's EIP-1153 implementation is the differential reference for transient storage", "MCOPY content check needs the step's memory copy (<= 64 KiB)"},
		Cases: func(seed uint64, tier string) []Case {
			ng, nt, nd := 500, 150, 400
			if !quick(tier) {
				ng, nt, nd = 20000, 5000, 15000
			}
			var cs []Case
			for i := 0; i < ng; i++ {
				cs = append(cs, Case{Kind: "gen", Seed: h.Mix(seed, 0xC15, uint64(i))})
			}
			for i := 0; i < nt; i++ {
				cs = append(cs, Case{Kind: "tree", Seed: h.Mix(seed, 0xC15A, uint64(i))})
			}
			for i := 0; i < nd; i++ {
				cs = append(cs, Case{Kind: "diff", Seed: h.Mix(seed, 0xC15B, uint64(i))})
			}
			cs = append(cs, Case{Kind: "pre"}, Case{Kind: "mgrid"}, Case{Kind: "stackedge"})
			return cs
		},
		Run: runC15,
		Floors: func(tier string) map[string]int64 {
			return map[string]int64{"tloads_checked": 800, "tstores_checked": 600, "static_tstores_checked": 15, "mcopies_checked": 1500, "diff_in_domain": 100, "pre_cancun_checked": 30}
		},
	})
}

func runC15(c Case, tier string) (res CaseResult) {
	report := func(fs []([2]string), desc string, cls string) {
		for _, f := range fs {
			res.Fail(Key(f[0], cls), "Cancun instruction deviates from its EIP: "+f[1], desc)
		}
	}
	switch c.Kind {
	case "gen":
		dc := genDual(c.Seed, h.Cancun, func(o *h.GenOpts) {
			o.Cancun, o.HugeMcopy, o.CallBias, o.MaxGadgets = true, true, 22, 18
		})
		dc.Env.Fork = h.Cancun
		dc.Env.ExtraEips = nil
		if dc.Tx.Gas < 100000 {
			dc.Tx.Gas += 300000
		}
		fs := h.NewForkSession(dc.World, dc.Env, h.ForkOpts{Debug: true, RecSteps: true})
		ir := fs.Invoke(dc.Tx)
		if ir.Panic != "" {
			res.Fail(Key("panic", "gen"), "panic: "+firstLine(ir.Panic), dc.Desc, clip(ir.PanicStk, 1500))
			return
		}
		// a second transaction on the same state: transient storage must be empty again
		tx2 := dc.Tx
		tx2.Entry, tx2.From, tx2.To = h.ECall, h.Sender, h.ContractAddr(0)
		tx2.Value = new(big.Int)
		if ir2 := fs.Invoke(tx2); ir2.Panic != "" {
			res.Fail(Key("panic", "gen"), "panic: "+firstLine(ir2.Panic), dc.Desc, clip(ir2.PanicStk, 1500))
			return
		}
		report(c15Monitor(fs.L, dc.Tx.Entry == h.EStaticCall, &res), dc.Desc, "gen")
		res.Evals = 2
		cancunShape(&res, fs.L, "gen")
		if c.Seed%67 == 0 {
			res.Sample = map[string]interface{}{"case": c, "desc": dc.Desc}
		}
	case "tree":
		sc := c15Scenario(c.Seed)
		fs := h.NewForkSession(sc.World, h.EnvSpec{Fork: h.Cancun}, h.ForkOpts{Debug: true, RecSteps: true})
		ir := fs.Invoke(sc.Tx)
		if ir.Panic != "" {
			res.Fail(Key("panic", "tree"), "panic: "+firstLine(ir.Panic), sc.desc(), clip(ir.PanicStk, 1500))
			return
		}
		fs.Invoke(sc.Tx)
		report(c15Monitor(fs.L, false, &res), sc.desc(), "tree")
		res.Evals = 2
		cancunShape(&res, fs.L, "tree")
	case "diff":
		// fork: Cancun with 0x5c/0x5d; reference: Shanghai + EIP-1153 with 0xb3/0xb4
		mk := func(tl, tsb byte) DualCase {
			return genDual(c.Seed, h.Shanghai, func(o *h.GenOpts) {
				o.Cancun, o.NoMcopy, o.TloadByte, o.TstoreByte, o.CallBias, o.NoInvalid = true, true, tl, tsb, 25, true
			})
		}
		df, dr := mk(0, 0), mk(0xb3, 0xb4)
		df.Env = h.EnvSpec{Fork: h.Cancun}
		dr.Env = h.EnvSpec{Fork: h.Shanghai, ExtraEips: []int{1153}}
		for _, d := range []*DualCase{&df, &dr} {
			if d.Tx.Entry == h.ECreate2 || d.Tx.Entry == h.ECreate {
				// init code bytes differ between the two encodings, so would the CREATE2 address
				d.Tx.Entry, d.Tx.To = h.ECall, h.ContractAddr(0)
			}
		}
		rs := h.NewRefSession(dr.World, dr.Env, h.RefOpts{Debug: true, RecSteps: true, LightMem: true})
		rres := rs.Invoke(dr.Tx)
		fs := h.NewForkSession(df.World, df.Env, h.ForkOpts{Debug: true, RecSteps: true, LightMem: true})
		fres := fs.Invoke(df.Tx)
		res.Evals = 2
		// domain: no create inside (code bytes differ -> code hashes / CREATE2 addresses differ), no code introspection, no other non-standard byte
		foreign := func(l *h.Log, a, b byte) bool {
			for i := range l.Events {
				if e := &l.Events[i]; (e.K == h.KStep || e.K == h.KFault) && (e.Op == a || e.Op == b) {
					return true
				}
			}
			return false
		}
		if !c15DiffDomain(fs.L) || !c15DiffDomain(rs.L) || foreign(fs.L, 0xb3, 0xb4) || foreign(rs.L, 0x5c, 0x5d) {
			res.Count("diff_out_of_domain", 1)
			return
		}
		res.Count("diff_in_domain", 1)
		if fres.Panic != "" {
			res.Fail(Key("panic", "diff"), "panic: "+firstLine(fres.Panic), df.Desc, clip(fres.PanicStk, 1500))
			return
		}
		var diffs []string
		if fres.ErrClass != rres.ErrClass {
			diffs = append(diffs, fmt.Sprintf("error class %q vs %q", fres.ErrClass, rres.ErrClass))
		}
		if !bytes.Equal(fres.Ret, rres.Ret) {
			diffs = append(diffs, fmt.Sprintf("return data %x vs %x", clipB(fres.Ret), clipB(rres.Ret)))
		}
		if fres.Gas != rres.Gas {
			diffs = append(diffs, fmt.Sprintf("leftover gas %d vs %d", fres.Gas, rres.Gas))
		}
		keys := map[common.Address]map[common.Hash]bool{}
		for _, a := range df.World.Accts {
			keys[a.Addr] = map[common.Hash]bool{}
		}
		collectTouched(keys, fs.L)
		sf := touchedState(fs, keys)
		sr := touchedStateRef(rs, keys)
		if sf != sr {
			diffs = append(diffs, "post-state differs", clip(sf, 600), clip(sr, 600))
		}
		if len(fs.DB.Logs()) != len(rs.DB.Logs()) {
			diffs = append(diffs, fmt.Sprintf("log count %d vs %d", len(fs.DB.Logs()), len(rs.DB.Logs())))
		}
		if len(diffs) > 0 {
			res.Fail(Key("diff-1153", df.Tx.Entry.String()), "transient-storage program behaves differently from go-ethereum v1.12.0 with EIP-1153", append([]string{df.Desc}, diffs...)...)
		}
		cancunShape(&res, fs.L, "diff")
	case "pre":
		n := int64(0)
		for f := h.Frontier; f < h.Cancun; f++ {
			for _, op := range []byte{h.TLOAD, h.TSTORE, h.MCOPY} {
				a := h.NewAsm().PushU(0).PushU(0).PushU(0).Op(op, h.STOP)
				if f >= h.Istanbul {
					// another EVM on the same fork has the two EIPs switched on as extras: that must not leak into plain EVMs
					fx := h.NewForkSession(h.BaseWorld([][]byte{a.Bytes()}), h.EnvSpec{Fork: f, ExtraEips: []int{1153, 5656}}, h.ForkOpts{})
					if ix := fx.Invoke(h.TxSpec{Entry: h.ECall, From: h.Sender, To: h.ContractAddr(0), Gas: 100000}); ix.Err != nil || ix.Panic != "" {
						res.Fail(Key("extra-eip-not-enabled", fmt.Sprintf("op%02x", op)), fmt.Sprintf("byte %#x with extra EIPs 1153+5656 on %s: %v %s", op, f, ix.Err, firstLine(ix.Panic)))
					}
				}
				fs := h.NewForkSession(h.BaseWorld([][]byte{a.Bytes()}), h.EnvSpec{Fork: f}, h.ForkOpts{Debug: true, RecSteps: true})
				ir := fs.Invoke(h.TxSpec{Entry: h.ECall, From: h.Sender, To: h.ContractAddr(0), Gas: 100000})
				n++
				res.Count("pre_cancun_checked", 1)
				res.Shape("pre", f, op)
				if ir.Panic != "" || ir.ErrClass != "invalid_opcode" {
					res.Fail(Key("pre-cancun-valid", fmt.Sprintf("op%02x", op)), fmt.Sprintf("byte %#x on fork %s ended with %q / %s, expected an invalid instruction", op, f, ir.ErrClass, firstLine(ir.Panic)))
				}
			}
		}
		res.Evals = n
	case "stackedge":
		// each Cancun instruction at every stack height near its bounds: TLOAD needs 1 item and leaves 1 (so it must work
		// on a full stack of 1024), TSTORE needs 2, MCOPY needs 3; fewer items underflow, nothing else may fail
		n := int64(0)
		type cop struct {
			op         byte
			name       string
			pops, push int
		}
		for _, f := range []h.Fork{h.Cancun, h.Prague} {
			for _, co := range []cop{{h.TLOAD, "TLOAD", 1, 1}, {h.TSTORE, "TSTORE", 2, 0}, {h.MCOPY, "MCOPY", 3, 0}} {
				for _, hgt := range []int{0, 1, 2, 3, 4, 5, 1000, 1021, 1022, 1023, 1024} {
					a := h.NewAsm()
					for i := 0; i < hgt; i++ {
						a.Op(h.PUSH1, byte(i%5))
					}
					a.Op(co.op, h.STOP)
					fs := h.NewForkSession(h.BaseWorld([][]byte{a.Bytes()}), h.EnvSpec{Fork: f}, h.ForkOpts{Debug: true, RecSteps: true, LightMem: true})
					ir := fs.Invoke(h.TxSpec{Entry: h.ECall, From: h.Sender, To: h.ContractAddr(0), Gas: 2_000_000})
					n++
					desc := fmt.Sprintf("%s with %d items on the stack on %s", co.name, hgt, f)
					if ir.Panic != "" {
						res.Fail(Key("panic", "stackedge"), "panic: "+firstLine(ir.Panic), desc, clip(ir.PanicStk, 1500))
						continue
					}
					want := ""
					if hgt < co.pops {
						want = "stack_underflow"
					} else if hgt-co.pops+co.push > 1024 {
						want = "stack_overflow"
					}
					if ir.ErrClass != want {
						res.Fail(Key("stack-bounds", co.name), fmt.Sprintf("ended with %q, expected %q (the instruction pops %d and pushes %d)", ir.ErrClass, want, co.pops, co.push), desc)
					}
					res.Shape("stackedge", co.name, hgt, ir.ErrClass)
					res.Count("stack_edge_cases", 1)
				}
			}
		}
		res.Evals = n
	case "mgrid":
		// (dst, src, len) boundary grid incl. overlap both directions, zero length with huge offsets, out of range
		vals := []*uint256.Int{h.U(0), h.U(1), h.U(31), h.U(32), h.U(33), h.U(64), h.U(95), h.U(96), h.U(97), h.U(200), h.U(1 << 16), h.U(1 << 32), h.U(1<<63 - 1), h.U(1 << 63), new(uint256.Int).Lsh(h.U(1), 64), new(uint256.Int).Lsh(h.U(1), 255), new(uint256.Int).Not(h.U(0))}
		lens := []*uint256.Int{h.U(0), h.U(1), h.U(31), h.U(32), h.U(33), h.U(64), h.U(96), h.U(1 << 20), new(uint256.Int).Lsh(h.U(1), 64), new(uint256.Int).Not(h.U(0))}
		n := int64(0)
		for _, d := range vals {
			for _, s := range vals {
				for _, ln := range lens {
					a := h.NewAsm()
					for i := 0; i < 3; i++ {
						a.Push32(new(uint256.Int).SetBytes(bytes.Repeat([]byte{byte(0x11 * (i + 1))}, 32))).PushU(uint64(32 * i)).Op(h.MSTORE)
					}
					a.Push(ln).Push(s).Push(d).Op(h.MCOPY, h.MSIZE, h.POP, h.STOP)
					fs := h.NewForkSession(h.BaseWorld([][]byte{a.Bytes()}), h.EnvSpec{Fork: h.Cancun}, h.ForkOpts{Debug: true, RecSteps: true})
					ir := fs.Invoke(h.TxSpec{Entry: h.ECall, From: h.Sender, To: h.ContractAddr(0), Gas: 2_000_000})
					n++
					desc := fmt.Sprintf("MCOPY dst=%s src=%s len=%s", d.Hex(), s.Hex(), ln.Hex())
					if ir.Panic != "" {
						res.Fail(Key("panic", "mgrid"), "panic: "+firstLine(ir.Panic), desc, clip(ir.PanicStk, 1500))
						continue
					}
					report(c15Monitor(fs.L, false, &res), desc, "mgrid")
					// small operands must succeed
					if d.IsUint64() && s.IsUint64() && ln.IsUint64() && d.Uint64() <= 1<<16 && s.Uint64() <= 1<<16 && ln.Uint64() <= 1<<16 && ir.Err != nil {
						res.Fail(Key("mcopy-refused", "mgrid"), "an affordable MCOPY failed: "+ir.Err.Error(), desc)
					}
					res.Shape("mgrid", d.IsUint64(), s.IsUint64(), ln.IsUint64(), ln.IsZero(), ir.ErrClass)
				}
			}
		}
		res.Evals = n
	}
	return
}

func cancunShape(res *CaseResult, l *h.Log, tag string) {
	for i := range l.Events {
		e := &l.Events[i]
		if e.K == h.KStep && (e.Op == h.TLOAD || e.Op == h.TSTORE || e.Op == h.MCOPY) {
			res.Shape(tag, shapeOf(l))
			return
		}
	}
}

// c15DiffDomain: the two encodings of the program are only comparable when nothing depends on code bytes.
func c15DiffDomain(l *h.Log) bool {
	for i := range l.Events {
		e := &l.Events[i]
		if e.K != h.KStep {
			continue
		}
		// a byte that means something else in the other encoding (reached through raw / mutated bytes)
		if e.Op == 0xb3 || e.Op == 0xb4 || e.Op == 0x5c || e.Op == 0x5d || e.Op == 0x5e {
			if !(e.Err == "" && (e.Op == h.TLOAD || e.Op == h.TSTORE || e.Op == 0xb3 || e.Op == 0xb4)) {
				return false
			}
		}
		switch e.Op {
		case h.CREATE, h.CREATE2, h.CODECOPY, h.EXTCODECOPY, h.EXTCODEHASH, h.CODESIZE, h.MCOPY:
			return false
		}
		if e.Op >= 0xe0 && e.Op <= 0xe7 {
			return false
		}
		if isCallOp(e.Op) && len(e.Stack) >= 2 {
			a := common.Address(e.Stack[len(e.Stack)-2].Bytes20())
			if a[19] >= 100 && a[19] <= 102 && bytes.Equal(a[:19], make([]byte, 19)) {
				return false
			}
		}
	}
	return true
}

func touchedStateRef(rs *h.RefSession, keys map[common.Address]map[common.Hash]bool) string {
	// same rendering as touchedState, over the reference session's state
	tmp := &h.ForkSession{DB: rs.DB}
	return touchedState(tmp, keys)
}
