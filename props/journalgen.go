package props

import (
	"bytes"
	"fmt"
	"math/big"
	"sort"

	h "verif/harness"
	"verif/models/sollayout"

	avm "github.com/artela-network/artela-evm/vm"
	"github.com/ethereum/go-ethereum/common"
	"github.com/ethereum/go-ethereum/crypto"
	"github.com/holiman/uint256"
)

// Journal gadgets emitted into scenario nodes, a shadow journal built from
// debug-tracer events, and the comparison with the tracer's complete dump.

// jmode selects how a journal instruction is emitted.
type jmode int

const (
	jReal jmode = iota // the instruction followed by n-1 JUMPDEST padding bytes (n = operand count)
	jPops              // n POP bytes (same length, same jump targets)
)

const memJ = 0x700 // staging area for names / index keys

// jop emits one journal instruction (operands: top of stack first) in the given mode.
func jop(a *h.Asm, mode jmode, pad bool, op byte, ops ...*uint256.Int) {
	n := h.JournalPops[op]
	if len(ops) != n {
		panic("journal operand count")
	}
	for i := len(ops) - 1; i >= 0; i-- {
		a.Push(ops[i])
	}
	switch {
	case mode == jPops:
		for i := 0; i < n; i++ {
			a.Op(h.POP)
		}
	case pad:
		a.Op(op)
		for i := 0; i < n-1; i++ {
			a.Op(h.JUMPDEST)
		}
	default:
		a.Op(op)
	}
}

var (
	jTypU   = h.TypeID(1)
	jTypP   = h.TypeID(2)
	jTypStr = h.TypeID(3)
	jTypMap = h.TypeID(4)
	jTypArr = h.TypeID(5)
)

func jMapSlot(key uint64, base uint64) *uint256.Int {
	return new(uint256.Int).SetBytes(crypto.Keccak256(common.LeftPadBytes(new(big.Int).SetUint64(key).Bytes(), 32), common.LeftPadBytes(new(big.Int).SetUint64(base).Bytes(), 32)))
}

// journalExtra returns a scenario Extra hook emitting register+journal gadgets.
// Every node works on the shared variables x (slot 20, full word), p (slot 21, offset 4, width 8),
// s (string at slot 22), m[k] (mapping at slot 23, value-typed element), a[k] (reference-indexed
// element under array key at slot 24). Values are drawn from a tiny set so that repeats
// (a,a,b,a) occur within and across frames.
func journalExtra(seed uint64, mode jmode, pad bool, storePct int) func(a *h.Asm, n *node, phase int) {
	return func(a *h.Asm, n *node, phase int) {
		r := h.NewRNG(h.Mix(seed, uint64(n.ID), uint64(phase), 0x6a))
		k := 1 + r.Intn(3)
		for i := 0; i < k; i++ {
			if r.Chance(25) {
				// a call attempt that opens no code frame between two journal entries: code-less / non-existent /
				// precompile targets, and attempts refused up front (value or endowment beyond the balance)
				tgt := []common.Address{h.Nobody, h.EOARich, common.BytesToAddress([]byte{4}), h.EmptyAcct, common.BytesToAddress([]byte{0xd0, byte(n.ID), byte(i)})}[r.Intn(5)]
				switch v := r.Intn(4); {
				case v == 0 && !n.Static:
					a.PushU(0).PushU(0).PushU(0).PushU(0).Push(new(uint256.Int).Lsh(h.U(1), 120)).PushAddr(tgt).PushU(3000).Op(h.CALL, h.POP)
				case v == 1 && !n.Static:
					a.PushU(0).PushU(0).Push(new(uint256.Int).Lsh(h.U(1), 120)).Op(h.CREATE, h.POP)
				case v == 2:
					a.PushU(0).PushU(0).PushU(0).PushU(0).PushU(0).PushAddr(tgt).PushU(3000).Op(h.CALLCODE, h.POP)
				default:
					a.PushU(0).PushU(0).PushU(0).PushU(0).PushU(0).PushAddr(tgt).PushU(3000).Op(h.CALL, h.POP)
				}
			}
			switch r.Intn(6) {
			case 0, 1: // x: register (value state var) + store + journal (+ maybe journal again)
				a.MstoreName(memJ, []byte("x"))
				jop(a, mode, pad, h.VSVJNAL, h.U(memJ), h.U(20), h.U(0), jTypU)
				if !n.Static && r.Chance(storePct) {
					a.PushU(uint64(1 + r.Intn(2))).PushU(20).Op(h.SSTORE)
				}
				jop(a, mode, pad, h.VVJNAL, h.U(20), h.U(0), h.U(32), jTypU)
				if r.Chance(40) {
					jop(a, mode, pad, h.VVJNAL, h.U(20), h.U(0), h.U(32), jTypU)
				}
			case 2: // p: packed field
				a.MstoreName(memJ, []byte("p"))
				jop(a, mode, pad, h.VSVJNAL, h.U(memJ), h.U(21), h.U(4), jTypP)
				if !n.Static && r.Chance(storePct) {
					a.Push(new(uint256.Int).Lsh(h.U(uint64(1+r.Intn(2))), 32+8*uint(r.Intn(3)))).PushU(21).Op(h.SSTORE)
				}
				jop(a, mode, pad, h.VVJNAL, h.U(21), h.U(4), h.U(8), jTypP)
			case 3: // s: string
				a.MstoreName(memJ, []byte("s"))
				jop(a, mode, pad, h.RSVJNAL, h.U(memJ), h.U(22), jTypStr)
				if !n.Static && r.Chance(storePct) {
					content := [][]byte{[]byte("ab"), {0, 0x61}, bytes.Repeat([]byte{0x62}, 33), []byte("ab"), bytes.Repeat([]byte{0x63, 0x64, 0x65}, 15), append(bytes.Repeat([]byte{0x66}, 32), byte(n.ID))}[r.Intn(6)]
					enc := sollayout.EncodeString(h.U(22).Bytes32(), content)
					keys := make([][32]byte, 0, len(enc))
					for kk := range enc {
						keys = append(keys, kk)
					}
					sort.Slice(keys, func(i, j int) bool { return bytes.Compare(keys[i][:], keys[j][:]) < 0 })
					for _, kk := range keys {
						w := enc[kk]
						a.Push32(new(uint256.Int).SetBytes32(w[:])).Push32(new(uint256.Int).SetBytes32(kk[:])).Op(h.SSTORE)
					}
				}
				jop(a, mode, pad, h.VRJNAL, h.U(22), jTypStr)
			case 4: // m[k]: mapping with value-typed key, value element (half of the time a packed member at a non-zero offset)
				if r.Chance(50) {
					key := uint64(3 + r.Intn(2))
					es := jMapSlot(key, 23)
					off := uint64(16)
					a.MstoreName(memJ, []byte("m"))
					jop(a, mode, pad, h.RSVJNAL, h.U(memJ), h.U(23), jTypMap)
					jop(a, mode, pad, h.IVVVJNAL, h.U(23), es, h.U(key), h.U(off), jTypP, jTypMap)
					if !n.Static && r.Chance(storePct) {
						a.Push(new(uint256.Int).Lsh(h.U(uint64(1+r.Intn(2))), 128)).Push(es).Op(h.SSTORE)
					}
					jop(a, mode, pad, h.VVJNAL, es, h.U(off), h.U(16), jTypP)
					continue
				}
				key := uint64(1 + r.Intn(2))
				es := jMapSlot(key, 23)
				a.MstoreName(memJ, []byte("m"))
				jop(a, mode, pad, h.RSVJNAL, h.U(memJ), h.U(23), jTypMap)
				jop(a, mode, pad, h.IVVVJNAL, h.U(23), es, h.U(key), h.U(0), jTypU, jTypMap)
				if !n.Static && r.Chance(storePct) {
					a.PushU(uint64(1 + r.Intn(2))).Push(es).Op(h.SSTORE)
				}
				jop(a, mode, pad, h.VVJNAL, es, h.U(0), h.U(32), jTypU)
			default: // a[key bytes]: reference-typed index key read from memory, value element and string element
				es := jMapSlot(7, 24)
				a.MstoreName(memJ, []byte("arr"))
				jop(a, mode, pad, h.RSVJNAL, h.U(memJ), h.U(24), jTypArr)
				a.MstoreName(memJ+0x40, []byte("key-bytes"))
				if r.Chance(30) {
					// reference-typed index key, packed member at offset 8
					es3 := jMapSlot(10, 24)
					jop(a, mode, pad, h.IRVVJNAL, h.U(24), es3, h.U(memJ+0x40), h.U(8), jTypP, jTypArr)
					jop(a, mode, pad, h.VVJNAL, es3, h.U(8), h.U(8), jTypP)
				} else if r.Bool() {
					jop(a, mode, pad, h.IRVVJNAL, h.U(24), es, h.U(memJ+0x40), h.U(0), jTypU, jTypArr)
					if !n.Static && r.Chance(storePct) {
						a.PushU(uint64(1 + r.Intn(2))).Push(es).Op(h.SSTORE)
					}
					jop(a, mode, pad, h.VVJNAL, es, h.U(0), h.U(32), jTypU)
				} else {
					es2 := jMapSlot(8, 24)
					jop(a, mode, pad, h.IRVRJNAL, h.U(24), es2, h.U(memJ+0x40), jTypStr, jTypArr)
					jop(a, mode, pad, h.IVVRJNAL, h.U(24), jMapSlot(9, 24), h.U(9), jTypStr, jTypArr)
					jop(a, mode, pad, h.VRJNAL, es2, jTypStr)
				}
			}
		}
	}
}

// jkey identifies a journaled variable by position.
type jkey struct {
	Acct common.Address
	Slot [32]byte
	Off  uint8
	Typ  common.Hash
}

func (k jkey) String() string {
	return fmt.Sprintf("%s/slot=%x/off=%d/type=%x", k.Acct.Hex(), bytes.TrimLeft(k.Slot[:], "\x00"), k.Off, k.Typ[:2])
}

// shadowJournal is the event-driven shadow of the tracer's change journal.
type shadowJournal struct {
	fs      *h.ForkSession
	decoded map[int]decodedStep // step seq -> what the journal step should record
	err     string
}

type decodedStep struct {
	key jkey
	val []byte
	ok  bool // operands denote a valid field/string
}

// attachShadowJournal installs the online part: at every value/reference journal step the
// independent decoder reads the executing contract's storage at that instant.
func attachShadowJournal(fs *h.ForkSession) *shadowJournal {
	sj := &shadowJournal{fs: fs, decoded: map[int]decodedStep{}}
	prev := fs.Rec.OnStep
	fs.Rec.OnStep = func(e *h.Event, scope *avm.ScopeContext) {
		if prev != nil {
			prev(e, scope)
		}
		if e.Err != "" || (e.Op != h.VVJNAL && e.Op != h.VRJNAL) {
			return
		}
		st := e.Stack
		if e.Op == h.VVJNAL && len(st) < 4 || len(st) < 2 {
			return
		}
		top := func(i int) *uint256.Int { return &st[len(st)-1-i] }
		read := func(slot [32]byte) [32]byte { return fs.DB.GetState(e.Addr, common.Hash(slot)) }
		var d decodedStep
		if e.Op == h.VVJNAL {
			v, err := sollayout.ValueField(read(top(0).Bytes32()), top(1).ToBig(), top(2).ToBig())
			off := uint8(0)
			if top(1).IsUint64() && top(1).Uint64() < 32 {
				off = uint8(top(1).Uint64())
			}
			d = decodedStep{key: jkey{e.Addr, top(0).Bytes32(), off, common.Hash(top(3).Bytes32())}, val: v, ok: err == nil}
		} else {
			v, err := sollayout.String(read, top(0).Bytes32(), 1<<16)
			d = decodedStep{key: jkey{e.Addr, top(0).Bytes32(), 0, common.Hash(top(1).Bytes32())}, val: v, ok: err == nil}
		}
		sj.decoded[e.Seq] = d
	}
	return sj
}

// expected builds, after the run, the expected change lists per key and call index.
func (sj *shadowJournal) expected(sh *shadowLog) map[jkey]map[uint64][][]byte {
	l := sj.fs.L
	out := map[jkey]map[uint64][][]byte{}
	for i := range l.Events {
		e := &l.Events[i]
		if e.K != h.KStep || e.Err != "" {
			continue
		}
		d, ok := sj.decoded[e.Seq]
		if !ok {
			continue
		}
		// the instruction failed if a Fault at the same pc/depth follows immediately
		failed := false
		for j := i + 1; j < len(l.Events); j++ {
			n := &l.Events[j]
			if n.K == h.KFault {
				failed = n.PC == e.PC && n.Depth == e.Depth
				break
			}
			if n.K == h.KStep || n.K == h.KExit || n.K == h.KEnd || n.K == h.KEnter {
				break
			}
		}
		if failed || !d.ok {
			continue
		}
		idx := uint64(0)
		if c := sh.CurAt[e.Seq]; c >= 0 {
			idx = uint64(c)
		}
		if out[d.key] == nil {
			out[d.key] = map[uint64][][]byte{}
		}
		lst := out[d.key][idx]
		if len(lst) > 0 && bytes.Equal(lst[len(lst)-1], d.val) {
			continue
		}
		out[d.key][idx] = append(lst, d.val)
	}
	return out
}

// journalSteps returns, per journal opcode, the number of executed steps and their costs.
func journalSteps(l *h.Log) (n int, costs map[uint64]int, ops map[byte]int) {
	costs, ops = map[uint64]int{}, map[byte]int{}
	for i := range l.Events {
		e := &l.Events[i]
		if e.K == h.KStep && e.Err == "" && h.IsJournalOp(e.Op) {
			n++
			costs[e.Cost]++
			ops[e.Op]++
		}
	}
	return
}
