package props

import (
	"fmt"
	"math/big"
	"sync"
	"sync/atomic"

	h "verif/harness"
	"verif/models/abibytes"

	avm "github.com/artela-network/artela-evm/vm"
)

// C17 — concurrent EVM instances do not interfere; cancellation is safe.
// Runs in the -race build: the race detector (happens-before based, so timing independent)
// watches N concurrent executions on separate state; results are compared with sequential runs.

func c17Tx(seed uint64, i int) *c16Tx {
	r := h.NewRNG(h.Mix(seed, uint64(i)))
	switch r.Intn(6) {
	case 5:
		// writes through the context-write precompile (a contextful precompile cloned per call)
		payload := abibytes.Encode([]byte(fmt.Sprintf("k%d", i)), r.Bytes(1+r.Intn(40)))
		depth := 1 + r.Intn(2)
		codes := make([][]byte, depth)
		for d := 0; d < depth-1; d++ {
			codes[d] = c14Forwarder(h.ContractAddr(d + 1))
		}
		codes[depth-1] = c14Last(h.Pick(r, []byte{h.CALL, h.CALL, h.STATICCALL, h.DELEGATECALL}), addrCtxWrite, 100000, h.Shanghai)
		tx := h.TxSpec{Entry: h.ECall, From: h.Sender, To: h.ContractAddr(0), Input: payload, Gas: 3_000_000}
		return &c16Tx{world: h.BaseWorld(codes), env: h.EnvSpec{Fork: h.Pick(r, []h.Fork{h.Berlin, h.Shanghai, h.Cancun})}, txs: []h.TxSpec{tx, tx, tx}, desc: "context-write precompile calls"}
	case 0:
		return c16Gen(h.Mix(seed, uint64(i), 1), "children")
	case 1:
		return c16Gen(h.Mix(seed, uint64(i), 2), "tree")
	case 2:
		// extra EIPs that re-price or add opcodes: the copy-on-write path of the shared instruction tables
		t := c16Gen(h.Mix(seed, uint64(i), 3), "gen")
		t.env.ExtraEips = h.Pick(r, [][]int{{3855}, {3860}, {2200, 1884}, {1153, 5656}, {3529}, {2929}, {3855, 3860, 3198}})
		if t.env.Fork < h.Istanbul {
			t.env.Fork = h.London
		}
		return t
	default:
		return c16Gen(h.Mix(seed, uint64(i), 4), "gen")
	}
}

func runC17Conc(c Case, tier string, res *CaseResult) {
	r := h.NewRNG(c.Seed)
	n := h.Pick(r, []int{2, 4, 8, 16, 32})
	if quick(tier) && n == 32 {
		n = 12
	}
	txs := make([]*c16Tx, n)
	sameFork := r.Chance(50)
	for i := range txs {
		txs[i] = c17Tx(c.Seed, i)
		if sameFork && i > 0 {
			// same fork for everybody: instances share the per-fork instruction table
			txs[i].env.Fork = txs[0].env.Fork
		}
		if i%4 == 1 && i > 0 {
			// the same program as its neighbour, but without / with extra EIPs on the same fork
			cp := *txs[i-1]
			if len(cp.env.ExtraEips) == 0 {
				cp.env.ExtraEips = []int{3855, 3860}
			} else {
				cp.env.ExtraEips = nil
			}
			txs[i] = &cp
		}
	}
	// every third member is built like a gas-less call (Config.NoBaseFee, zero gas price)
	for i, t := range txs {
		if i%3 == 2 {
			cp := *t
			cp.noBaseFee = true
			txs[i] = &cp
		}
	}
	// when all members are on one fork the host shares ONE block context and chain configuration between the
	// concurrently running instances (as a node does for the calls it serves against one block)
	share := sameFork && r.Chance(70)
	var sharedEips, sharedEipsWant []int
	if share {
		if r.Chance(60) {
			// ... and one vm.Config, so one extra-EIP list (sometimes with a number the VM does not know in front)
			sharedEipsWant = h.Pick(r, [][]int{{3855, 3860}, {9999, 3855, 3198}, {1153, 5656}, {3198, 7777, 3855}})
		}
		for i, t := range txs {
			cp := *t
			cp.env.Number = 0 // (everybody works on the shared context's block)
			if sharedEipsWant != nil {
				cp.env.ExtraEips = append([]int(nil), sharedEipsWant...) // (the run alone gets a list of its own)
			}
			txs[i] = &cp
		}
	}
	// sequential reference: every member alone, with host objects of its own. In every other group it is computed AFTER
	// the concurrent runs, so that the concurrent instances are the first in the process to meet these programs
	// (nothing analysed, cached or initialised by an earlier run alone)
	concFirst := c.Seed%2 == 0
	plain := make([]*c16Tx, n)
	for i, t := range txs {
		cp := *t
		plain[i] = &cp
	}
	want := make([]string, n)
	computeWant := func() {
		for i, t := range plain {
			fs, irs := t.run(nil)
			want[i] = serializeRun(fs, irs)
		}
	}
	if !concFirst {
		computeWant()
	}
	var shared *h.SharedHost
	if share {
		shared = h.NewSharedHost(txs[0].env.Fork)
		if sharedEipsWant != nil {
			sharedEips = append([]int(nil), sharedEipsWant...)
		}
		for _, t := range txs {
			t.shared = shared
			if sharedEips != nil {
				t.env.ExtraEips, t.env.ShareEips = sharedEips, true
			}
		}
		res.Count("groups_sharing_host_objects", 1)
	}
	// concurrent runs
	reps := 3
	var maxOverlap int32
	gots := make([][]string, reps)
	for rep := 0; rep < reps; rep++ {
		var active int32
		got := make([]string, n)
		gots[rep] = got
		var wg sync.WaitGroup
		start := make(chan struct{})
		for i := range txs {
			wg.Add(1)
			go func(i int) {
				defer wg.Done()
				t := txs[i]
				<-start
				atomic.AddInt32(&active, 1)
				fs, irs := t.run(func(fs *h.ForkSession) {
					fs.Rec.OnStep = func(e *h.Event, scope *avm.ScopeContext) {
						cur := atomic.LoadInt32(&active)
						for {
							m := atomic.LoadInt32(&maxOverlap)
							if cur <= m || atomic.CompareAndSwapInt32(&maxOverlap, m, cur) {
								break
							}
						}
					}
				})
				atomic.AddInt32(&active, -1)
				got[i] = serializeRun(fs, irs)
			}(i)
		}
		close(start)
		wg.Wait()
		res.Count("concurrent_executions", int64(n))
	}
	if concFirst {
		computeWant()
		res.Count("groups_concurrent_first", 1)
	}
	for _, got := range gots {
		for i := range txs {
			if got[i] != want[i] {
				d := firstDiff(want[i], got[i])
				res.Fail(Key("concurrent-differs", diffRule(d)), fmt.Sprintf("execution %d of %d gives a different result when run concurrently with the others than when run alone", i, n), txs[i].desc, d)
			}
		}
	}
	if sharedEips != nil && fmt.Sprint(sharedEips) != fmt.Sprint(sharedEipsWant) {
		res.Fail(Key("shared-host-object-modified", "eips"), fmt.Sprintf("the extra-EIP list of the vm.Config shared between instances was rewritten: %v, was %v", sharedEips, sharedEipsWant), txs[0].desc)
	}
	if shared != nil {
		if d := shared.Changed(); d != "" {
			res.Fail(Key("shared-host-object-modified"), "the block context / chain configuration shared between instances was modified by an EVM", txs[0].desc, d)
		}
	}
	res.Max("overlap", int64(maxOverlap))
	res.Count("concurrency_groups", 1)
	if maxOverlap >= 2 {
		res.Count("groups_with_observed_overlap", 1)
	}
	res.Evals = int64(n * (reps + 1))
	res.Shape("conc", n, sameFork, want[0])
	if c.Seed%23 == 0 {
		res.Sample = map[string]interface{}{"case": c, "goroutines": n, "same_fork": sameFork, "first": txs[0].desc}
	}
}

// loopProgram returns a looping contract; kind selects which jump instruction closes the loop.
func loopProgram(kind int) [][]byte {
	a := h.NewAsm()
	switch kind {
	case 0: // JUMP loop
		a.Label("l").PushU(1).Op(h.POP).Jump("l")
		return [][]byte{a.Bytes()}
	case 1: // JUMPI-only loop
		a.Label("l").PushU(1).JumpI("l").Op(h.STOP)
		return [][]byte{a.Bytes()}
	case 2: // outer JUMP loop calling an inner contract that runs a short JUMPI loop
		a.Label("l").PushU(0).PushU(0).PushU(0).PushU(0).PushU(0).PushAddr(h.ContractAddr(1)).PushU(100000).Op(h.CALL, h.POP).Jump("l")
		b := h.NewAsm()
		b.PushU(5).Label("m").PushU(1).Op(h.SWAP1, h.SUB, h.DUP1).JumpI("m").Op(h.POP, h.STOP)
		return [][]byte{a.Bytes(), b.Bytes()}
	default: // recursion: the contract calls itself, each level loops a little with JUMPI before and after
		a.PushU(3).Label("m").PushU(1).Op(h.SWAP1, h.SUB, h.DUP1).JumpI("m").Op(h.POP)
		a.PushU(0).PushU(0).PushU(0).PushU(0).PushU(0).Op(h.ADDRESS, h.GAS, h.CALL, h.POP)
		a.Label("l").PushU(1).JumpI("l").Op(h.STOP)
		return [][]byte{a.Bytes()}
	}
}

func runC17Cancel(c Case, res *CaseResult) {
	r := h.NewRNG(c.Seed)
	kind := int(c.P[0])
	k := uint64(c.P[1])              // cancel when the step counter reaches k (0 = before start)
	resetAfterCancel := c.P[1] == -1 // cancelled between two transactions: the host then re-arms the EVM with Reset for the next one
	if resetAfterCancel {
		k = 0
	}
	fork := h.Pick(r, []h.Fork{h.Byzantium, h.Berlin, h.Shanghai, h.Cancun})
	fs := h.NewForkSession(h.BaseWorld(loopProgram(kind)), h.EnvSpec{Fork: fork}, h.ForkOpts{Debug: true})
	var steps atomic.Uint64
	var cancelledAt atomic.Uint64
	var cancelReturned atomic.Bool
	trigger := make(chan struct{})
	var once sync.Once
	fs.Rec.OnStep = func(e *h.Event, scope *avm.ScopeContext) {
		n := steps.Add(1)
		e.U64 = n
		if n == k {
			once.Do(func() { close(trigger) })
		}
	}
	done := make(chan struct{})
	go func() {
		<-trigger
		fs.EVM.Cancel()
		cancelledAt.Store(steps.Load())
		cancelReturned.Store(true)
		if r.Bool() {
			fs.EVM.Cancel() // calling it again must be harmless
		}
		close(done)
	}()
	if k == 0 {
		once.Do(func() { close(trigger) })
		<-done
		if resetAfterCancel {
			fs.EVM.Reset(fs.EVM.TxContext, fs.EVM.StateDB)
		}
	}
	desc := fmt.Sprintf("loop kind %d fork=%s cancel at step %d", kind, fork, k)
	ir := fs.Invoke(h.TxSpec{Entry: h.ECall, From: h.Sender, To: h.ContractAddr(0), Gas: 600_000, Value: new(big.Int)})
	once.Do(func() { close(trigger) }) // the program ended first: Cancel after the end must be safe too
	<-done
	res.Count("cancel_trials", 1)
	res.Evals = 1
	if ir.Panic != "" {
		res.Fail(Key("cancel-panic", fmt.Sprint(kind)), "panic after Cancel: "+firstLine(ir.Panic), desc, clip(ir.PanicStk, 1500))
		return
	}
	if !fs.EVM.Cancelled() {
		res.Fail(Key("cancel-lost", fmt.Sprint(kind)), "Cancelled() is false after Cancel()", desc)
	}
	ct := fs.EVM.Tracer().CallTree()
	if ct.Current() != nil || fs.EVM.VerifDepth() != 0 {
		res.Fail(Key("cancel-bookkeeping", fmt.Sprint(kind)), "bookkeeping not closed after a cancelled execution", desc)
	}
	c0 := cancelledAt.Load()
	total := steps.Load()
	// logical-time formulation of "stops promptly": a jump executed after Cancel() returned must see the flag.
	// Per frame: among its own steps with counter > c0 at most one JUMP/JUMPI, and it is the frame's last step.
	roots, _ := buildFrames(fs.L)
	var walk func(f *frame)
	landed := false
	walk = func(f *frame) {
		jumpSeen := false
		for _, s := range f.steps {
			if s.U64 <= c0 {
				continue
			}
			if jumpSeen {
				res.Fail(Key("cancel-not-prompt", fmt.Sprintf("op%02x", s.Op), fmt.Sprint(kind)), fmt.Sprintf("a frame kept executing after a jump that ran after Cancel() had returned (step %d, Cancel returned at step counter %d, %d steps in total)", s.U64, c0, total), desc)
				return
			}
			if s.Op == h.JUMP || s.Op == h.JUMPI {
				jumpSeen = true
				landed = true
			}
		}
		for _, ch := range f.children {
			walk(ch)
		}
	}
	for _, rt := range roots {
		walk(rt)
	}
	if k > 0 && k <= total && landed {
		res.Count("cancels_landed_mid_execution", 1)
		res.Set("landing_points", fmt.Sprintf("kind%d:%d", kind, (total-c0)/2))
	}
	if total > c0+4096 {
		res.Fail(Key("cancel-not-prompt", "late", fmt.Sprint(kind)), fmt.Sprintf("%d instructions ran after Cancel() had returned", total-c0), desc)
	}
	res.Shape("cancel", kind, k, total > k, ir.ErrClass)
}

func init() {
	Register(&Prop{
		ID:    "C17",
		Level: "exploration",
		Race:  true,
		Rule: "runs in the Go race-detector build (checkptr included). kind conc: N in {2,4,8,16,32} goroutines, each with its own EVM and StateDB, start behind a barrier and execute journal-heavy programs, journal call trees with real Aspects (shared provider and runtime pool), standard programs on different forks or on ONE fork with and without extra EIPs (the copy-on-write path of the shared instruction tables); every result (C16's full serialisation) must equal the sequential run; every race-detector report with a frame of artela-evm in either access stack is a violation (others are counted as external observations); an atomic gauge sampled in step callbacks reports the overlap actually achieved. " +
			"kind cancel: looping contracts (JUMP loop, JUMPI-only loop, nested calls, recursion) are cancelled from another goroutine when the VM's step counter reaches k (k swept 0..2000 and random, incl. before the start, before the start with EVM.Reset in between, after the end, twice): no panic, bookkeeping closed, and in logical time a JUMP/JUMPI executed after Cancel() returned must be the last instruction of its frame; distinct_nontrivial = distinct (group composition / cancel landing) observations",
		Assumptions: []string{"the race detector sees only executed accesses; schedules are sampled (3 repetitions per group), not enumerated", "promptness is judged on the VM's own step counter, never on wall-clock time; a hang would hit the worker watchdog and be reported as inconclusive"},
		BatchSize:   func(tier string, n int) int { return (n + 31) / 32 },
		Cases: func(seed uint64, tier string) []Case {
			ng := 30
			if !quick(tier) {
				ng = 150
			}
			var cs []Case
			for i := 0; i < ng; i++ {
				cs = append(cs, Case{Kind: "conc", Seed: h.Mix(seed, 0xC17, uint64(i))})
			}
			ks := []int64{-1, 0, 1, 2, 3, 5, 8, 13, 21, 34, 55, 89, 144, 233, 377, 610, 987, 1597, 2000, 1 << 40}
			for kind := 0; kind < 4; kind++ {
				for _, k := range ks {
					cs = append(cs, Case{Kind: "cancel", P: []int64{int64(kind), k}, Seed: h.Mix(seed, 0xC17C, uint64(kind), uint64(k))})
				}
				nr := 10
				if !quick(tier) {
					nr = 400
				}
				rr := h.NewRNG(h.Mix(seed, 0xC17D, uint64(kind)))
				for j := 0; j < nr; j++ {
					cs = append(cs, Case{Kind: "cancel", P: []int64{int64(kind), int64(1 + rr.Intn(3000))}, Seed: h.Mix(seed, 0xC17E, uint64(kind), uint64(j))})
				}
			}
			return cs
		},
		Run: func(c Case, tier string) (res CaseResult) {
			if c.Kind == "conc" {
				runC17Conc(c, tier, &res)
			} else {
				runC17Cancel(c, &res)
			}
			return
		},
		Floors: func(tier string) map[string]int64 {
			return map[string]int64{"concurrent_executions": 500, "groups_with_observed_overlap": 10, "cancel_trials": 100, "cancels_landed_mid_execution": 40}
		},
	})
}
