package props

import (
	"fmt"

	h "verif/harness"
)

// runC18Balance: Start/End and Enter/Exit stay balanced when a join point aborts a call.
func runC18Balance(c Case, res *CaseResult) {
	r := h.NewRNG(c.Seed)
	sc := genScenario(r, scenOpts{FailPct: 20, ValuePct: 30})
	plan := bindPlan(r, sc, 50, []uint32{0, 10}, 10)
	check := func(fs *h.ForkSession, ir h.InvokeResult, label string) {
		res.Count("balance_runs", 1)
		if ir.Panic != "" {
			res.Fail(Key("panic", "balance"), "panic: "+ir.Panic, sc.desc(), label, clip(ir.PanicStk, 1200))
			return
		}
		roots, unb := buildFrames(fs.L)
		if unb != "" {
			res.Fail(Key("balance", labelClass(label)), "tracer stream unbalanced when a join point aborts a call: "+unb, sc.desc(), label)
		}
		if len(roots) != 1 {
			res.Fail(Key("balance-roots", labelClass(label)), fmt.Sprintf("%d Start events for one invocation", len(roots)), sc.desc(), label)
		}
		starts, ends := 0, 0
		for i := range fs.L.Events {
			switch fs.L.Events[i].K {
			case h.KStart:
				starts++
			case h.KEnd:
				ends++
			}
		}
		if starts != 1 || ends != 1 {
			res.Fail(Key("balance-startend", labelClass(label)), fmt.Sprintf("Start=%d End=%d for one invocation", starts, ends), sc.desc(), label)
		}
		res.Shape("balance", sc.desc(), label, shapeOf(fs.L))
	}
	fs, ir := runScenario(sc, plan, true, false)
	check(fs, ir, "base:none")
	evals := int64(1)
	for _, f := range firingsOf(fs.L) {
		for kind := 0; kind < 4; kind++ {
			p := clonePlan(plan)
			p.FailAt[f.idx] = injectedErr(kind)
			fs2, ir2 := runScenario(sc, p, true, false)
			pp := "pre"
			if f.pointcut == "postContractCall" {
				pp = "post"
			}
			check(fs2, ir2, fmt.Sprintf("fail@%d:%s:%s", f.idx, pp, injectedErrNames[kind]))
			res.Count("jp_aborts", 1)
			evals++
		}
	}
	res.Evals = evals
}
