package props

import (
	"fmt"

	h "verif/harness"

	"github.com/ethereum/go-ethereum/common"
	"github.com/holiman/uint256"
)

// The shadow call log: an independent record of every CALL / CREATE / CREATE2
// a transaction attempted, derived only from harness Invoke/Return events and
// debug-tracer Step / Enter / Exit events (operands and memory copied at the
// step). It is what the VM's own call tree is compared against (C07, C08) and
// supplies the call index for the journal / balance / join-point monitors
// (C05, C10, C13).

type attempt struct {
	Index    int
	Parent   int  // -1 for top-level invocations
	Op       byte // CALL / CREATE / CREATE2 (top-level: CALL or CREATE)
	Top      bool
	From     common.Address
	To       *common.Address // nil for creates
	Value    *uint256.Int
	Gas      uint64 // gas supplied to the frame
	GasKnown bool
	Data     []byte
	DataOK   bool // Data could be reconstructed from the recorded memory
	Entered  bool
	StepSeq  int
	EnterSeq int
	ExitSeq  int
	Ret      []byte
	ErrClass string
	Failed   bool
	Left     uint64 // gas handed back to the caller
	LeftOK   bool
	Children []int
	Depth    int // depth of the issuing frame (0 for top-level)
	Created  common.Address
	HostCall bool // issued by the host while the VM was running (re-entrant call), not by an instruction
}

type shadowLog struct {
	Attempts []*attempt
	// CurAt[seq] = index of the innermost CALL/CREATE attempt whose node is open at that event (-1: none)
	CurAt []int
	// Problems found while reconstructing (stream not well formed)
	Problems []string
	eip150   bool
}

type shFrame struct {
	idx      int  // attempt index, or inherited index for non-indexed frames
	indexed  bool // this frame is an attempt (CALL/CREATE/CREATE2/top)
	callStep *h.Event
	depth    int
}

func memSlice(e *h.Event, off, size uint64) ([]byte, bool) {
	if size == 0 {
		return nil, true
	}
	if e.Mem == nil && e.MemLen > 0 {
		return nil, false // memory was not copied (light mode / too large)
	}
	if size > 1<<20 || off > 1<<32 {
		return nil, false
	}
	out := make([]byte, size)
	if off < uint64(len(e.Mem)) {
		copy(out, e.Mem[off:])
	}
	return out, true
}

// buildShadow reconstructs the attempt log. eip150 selects the create-gas rule (all but one 64th).
func buildShadow(l *h.Log, eip150 bool) *shadowLog {
	sh := &shadowLog{CurAt: make([]int, len(l.Events)), eip150: eip150}
	var stack []shFrame
	pending := -1
	curIdx := func() int {
		if pending >= 0 {
			return pending
		}
		for i := len(stack) - 1; i >= 0; i-- {
			return stack[i].idx
		}
		return -1
	}
	parentIdx := func() int {
		if len(stack) == 0 {
			return -1
		}
		return stack[len(stack)-1].idx
	}
	newAttempt := func(a *attempt) {
		a.Index = len(sh.Attempts)
		a.Parent = parentIdx()
		if a.Parent >= 0 {
			p := sh.Attempts[a.Parent]
			p.Children = append(p.Children, a.Index)
		}
		sh.Attempts = append(sh.Attempts, a)
		pending = a.Index
	}
	// resolve a pending attempt that was never entered: refused up front
	var lastAttemptStep *h.Event
	resolveRefused := func(next *h.Event) {
		if pending < 0 {
			return
		}
		a := sh.Attempts[pending]
		pending = -1
		if a.Entered {
			return
		}
		a.Failed = true
		a.ErrClass = "refused"
		if a.Top {
			return // filled from the Return event
		}
		s := lastAttemptStep
		if s != nil && next != nil && (next.K == h.KStep) {
			after := s.Gas - s.Cost
			if a.Op == h.CALL {
				a.Left, a.LeftOK = next.Gas-after, next.Gas >= after
				if !a.GasKnown && a.LeftOK {
					// a refused CALL hands back exactly what it was given
					a.Gas, a.GasKnown = a.Left, true
				}
			} else {
				// create: the gas was deducted and the leftover added back
				base := after - a.Gas
				a.Left, a.LeftOK = next.Gas-base, next.Gas >= base
			}
		}
	}
	for i := range l.Events {
		e := &l.Events[i]
		switch e.K {
		case h.KInvoke:
			stack = stack[:0]
			pending = -1
			entry := h.Entry(e.Typ)
			if entry == h.ECall || entry == h.ECreate || entry == h.ECreate2 {
				a := &attempt{Top: true, Op: h.CALL, From: e.From, Gas: e.Gas, GasKnown: true, Data: e.Input, DataOK: true, StepSeq: e.Seq}
				v, _ := uint256.FromBig(e.Value)
				a.Value = v
				if entry == h.ECall {
					to := e.To
					a.To = &to
				} else {
					a.Op = h.CREATE
				}
				newAttempt(a)
			}
		case h.KReturn:
			// top-level outcome
			for j := len(sh.Attempts) - 1; j >= 0; j-- {
				a := sh.Attempts[j]
				if a.Top && a.ExitSeq == 0 && !a.LeftOK {
					a.Ret, a.ErrClass, a.Failed = e.Output, e.Err, e.ErrVal != nil
					a.Left, a.LeftOK = e.Gas, true
					a.ExitSeq = e.Seq
					a.Created = e.Addr
					break
				}
			}
			pending = -1
			stack = stack[:0]
		case h.KStart:
			if pending < 0 && len(stack) > 0 {
				// the host re-entered the EVM while serving a join point of the top-level frame: at depth 0 the VM
				// announces such a call like a transaction (Start/End), yet it is a call made on behalf of the open frame
				a := &attempt{Op: h.CALL, From: e.From, Gas: e.Gas, GasKnown: true, Data: e.Input, DataOK: true, StepSeq: e.Seq, HostCall: true, Depth: 0}
				if e.Create {
					a.Op = h.CREATE
					a.Created = e.To
				} else {
					to := e.To
					a.To = &to
				}
				a.Value, _ = uint256.FromBig(e.Value)
				if a.Value == nil {
					a.Value = new(uint256.Int)
				}
				newAttempt(a)
				a.Entered, a.EnterSeq = true, e.Seq
				stack = append(stack, shFrame{idx: a.Index, indexed: true, depth: 1})
				pending = -1
			} else if pending < 0 {
				sh.Problems = append(sh.Problems, fmt.Sprintf("Start at seq %d without a pending top-level attempt", e.Seq))
			} else {
				a := sh.Attempts[pending]
				a.Entered, a.EnterSeq = true, e.Seq
				stack = append(stack, shFrame{idx: a.Index, indexed: true, depth: 1})
				pending = -1
			}
		case h.KEnter:
			d := 1
			if len(stack) > 0 {
				d = stack[len(stack)-1].depth + 1
			}
			switch e.Typ {
			case h.CALL, h.CREATE, h.CREATE2:
				if pending < 0 && e.Typ == h.CALL {
					// a call issued by the host (an Aspect or provider callback re-entering the EVM), not by an instruction
					to := e.To
					a := &attempt{Op: h.CALL, From: e.From, To: &to, Gas: e.Gas, GasKnown: true, Data: e.Input, DataOK: true, StepSeq: e.Seq, HostCall: true, Depth: d - 1}
					a.Value, _ = uint256.FromBig(e.Value)
					if a.Value == nil {
						a.Value = new(uint256.Int)
					}
					newAttempt(a)
					a.Entered, a.EnterSeq = true, e.Seq
					stack = append(stack, shFrame{idx: a.Index, indexed: true, depth: d})
					pending = -1
				} else if pending < 0 {
					sh.Problems = append(sh.Problems, fmt.Sprintf("Enter(%#x) at seq %d without a pending attempt", e.Typ, e.Seq))
					stack = append(stack, shFrame{idx: parentIdx(), depth: d})
				} else {
					a := sh.Attempts[pending]
					a.Entered, a.EnterSeq = true, e.Seq
					if !a.GasKnown {
						a.Gas, a.GasKnown = e.Gas, true
					}
					if a.To == nil {
						a.Created = e.To
					}
					stack = append(stack, shFrame{idx: a.Index, indexed: true, callStep: lastAttemptStep, depth: d})
					pending = -1
				}
			default:
				stack = append(stack, shFrame{idx: parentIdx(), depth: d})
			}
		case h.KExit, h.KEnd:
			if len(stack) == 0 {
				sh.Problems = append(sh.Problems, fmt.Sprintf("Exit at seq %d with no frame open", e.Seq))
				break
			}
			f := stack[len(stack)-1]
			stack = stack[:len(stack)-1]
			if f.indexed {
				a := sh.Attempts[f.idx]
				a.ExitSeq = e.Seq
				a.Ret, a.ErrClass, a.Failed = e.Output, e.Err, e.ErrVal != nil
				if e.ErrVal != nil && a.ErrClass == "" {
					a.ErrClass = "error"
				}
				if !a.Top {
					// gas handed back: derived from the caller's next step
					for j := i + 1; j < len(l.Events); j++ {
						n := &l.Events[j]
						if n.K == h.KStep || n.K == h.KFault {
							if f.callStep != nil && n.K == h.KStep {
								after := f.callStep.Gas - f.callStep.Cost
								if a.Op != h.CALL {
									after -= a.Gas
								}
								a.Left, a.LeftOK = n.Gas-after, n.Gas >= after
							}
							break
						}
						if n.K == h.KReturn || n.K == h.KEnter || n.K == h.KExit || n.K == h.KEnd {
							break
						}
					}
				}
			}
		case h.KStep:
			resolveRefused(e)
			if e.Err != "" {
				break
			}
			if e.Op != h.CALL && e.Op != h.CREATE && e.Op != h.CREATE2 {
				break
			}
			// not an attempt when the instruction itself faults (write protection): next tracer event is a Fault here
			faulted := false
			for j := i + 1; j < len(l.Events); j++ {
				n := &l.Events[j]
				switch n.K {
				case h.KFault:
					faulted = n.PC == e.PC && n.Depth == e.Depth
				case h.KStep, h.KEnter, h.KStart, h.KExit, h.KEnd, h.KReturn:
				default:
					continue
				}
				break
			}
			if faulted {
				break
			}
			st := e.Stack
			n := len(st)
			a := &attempt{Op: e.Op, From: e.Addr, StepSeq: e.Seq, Depth: e.Depth}
			if e.Op == h.CALL {
				if n < 7 {
					break
				}
				to := common.Address(st[n-2].Bytes20())
				a.To = &to
				a.Value = new(uint256.Int).Set(&st[n-3])
				a.Data, a.DataOK = memSlice(e, st[n-4].Uint64(), st[n-5].Uint64())
				if !st[n-4].IsUint64() && !st[n-5].IsZero() {
					a.DataOK = false
				}
			} else {
				need := 3
				if e.Op == h.CREATE2 {
					need = 4
				}
				if n < need {
					break
				}
				a.Value = new(uint256.Int).Set(&st[n-1])
				a.Data, a.DataOK = memSlice(e, st[n-2].Uint64(), st[n-3].Uint64())
				avail := e.Gas - e.Cost
				if eip150 {
					avail -= avail / 64
				}
				a.Gas, a.GasKnown = avail, true
			}
			lastAttemptStep = e
			newAttempt(a)
		case h.KFault:
			resolveRefused(nil)
		}
		sh.CurAt[i] = curIdx()
	}
	return sh
}
