package props

import (
	"context"
	"fmt"
	"math/big"

	h "verif/harness"

	acore "github.com/artela-network/artela-evm/core"
	avm "github.com/artela-network/artela-evm/vm"
	art "github.com/artela-network/artela-evm/vm/runtime"
	"github.com/ethereum/go-ethereum/common"
	"github.com/ethereum/go-ethereum/consensus"
	ethcore "github.com/ethereum/go-ethereum/core"
	"github.com/ethereum/go-ethereum/core/state"
	"github.com/ethereum/go-ethereum/core/types"
	evm "github.com/ethereum/go-ethereum/core/vm"
	ert "github.com/ethereum/go-ethereum/core/vm/runtime"
)

// C01, kinds "runtime" and "hostctx": the convenience entry points in vm/runtime (Execute, Call, Create with
// their defaults and per-transaction preparation) and the host-side constructors in core/evm.go
// (NewEVMBlockContext, NewEVMTxContext, GetHashFn, CanTransfer, Transfer) against their upstream originals.

type rtOutcome struct {
	ret   []byte
	gas   uint64
	err   string
	addr  common.Address
	panic string
	o     h.Outcome
}

func guard(f func()) (p string) {
	defer func() {
		if r := recover(); r != nil {
			p = fmt.Sprint(r)
		}
	}()
	f()
	return ""
}

func runC01Runtime(c Case, res *CaseResult) {
	h.InitHost() // (the property assumes an initialised host: the Aspect provider singleton exists)
	dc := genDual(c.Seed, h.London, func(o *h.GenOpts) { o.CallBias = 20 })
	f := dc.Env.Fork
	mode := int(c.Seed>>7) % 4 // 0 Execute, 1 Call, 2 Create, 3 Execute with an (almost) empty config: the defaults
	code := dc.World.Get(h.ContractAddr(0)).Code
	input := dc.Tx.Input
	gas := dc.Tx.Gas
	if gas < 60000 {
		gas += 100000
	}
	value := big.NewInt(int64(c.Seed>>11) % 3)
	if mode == 2 {
		input = h.InitTemplate(h.NewRNG(c.Seed^0x17), int(c.Seed>>13)%h.NumInitTemplates)
	}
	desc := fmt.Sprintf("vm/runtime mode=%d (0 Execute 1 Call 2 Create 3 Execute on defaults) fork=%s gas=%d value=%v | %s", mode, f, gas, value, dc.Desc)
	number := big.NewInt(100)
	if dc.Env.Number != 0 {
		number = new(big.Int).SetUint64(dc.Env.Number)
	}
	getHash := func(n uint64) common.Hash { return common.BigToHash(new(big.Int).SetUint64(n + 77)) }

	var fo, ro rtOutcome
	// fork
	{
		db := dc.World.NewState()
		cfg := &art.Config{ChainConfig: h.ChainConfig(f), Difficulty: big.NewInt(0x20000), Origin: h.Sender, Coinbase: h.Coinbase, BlockNumber: new(big.Int).Set(number), Time: 1_700_000_000,
			GasLimit: gas, GasPrice: big.NewInt(11), Value: new(big.Int).Set(value), BaseFee: big.NewInt(7), State: db, GetHashFn: getHash,
			EVMConfig: avm.Config{ExtraEips: append([]int(nil), dc.Env.ExtraEips...)}}
		if mode == 3 {
			cfg = &art.Config{GasLimit: gas, State: db, Origin: h.Sender}
		}
		fo.panic = guard(func() {
			var err error
			switch mode {
			case 0, 3:
				fo.ret, _, err = art.Execute(context.Background(), code, input, cfg)
			case 1:
				fo.ret, fo.gas, err = art.Call(context.Background(), h.ContractAddr(0), input, cfg)
			case 2:
				fo.ret, fo.addr, fo.gas, err = art.Create(context.Background(), input, cfg)
			}
			fo.err = h.ErrClass(err)
		})
		fo.o = h.CollectOutcome(db, h.InvokeResult{}, true, nil)
	}
	// reference
	{
		db := dc.World.NewState()
		cfg := &ert.Config{ChainConfig: h.ChainConfig(f), Difficulty: big.NewInt(0x20000), Origin: h.Sender, Coinbase: h.Coinbase, BlockNumber: new(big.Int).Set(number), Time: 1_700_000_000,
			GasLimit: gas, GasPrice: big.NewInt(11), Value: new(big.Int).Set(value), BaseFee: big.NewInt(7), State: db, GetHashFn: getHash,
			EVMConfig: evm.Config{ExtraEips: append([]int(nil), dc.Env.ExtraEips...)}}
		if mode == 3 {
			cfg = &ert.Config{GasLimit: gas, State: db, Origin: h.Sender}
		}
		ro.panic = guard(func() {
			var err error
			switch mode {
			case 0, 3:
				ro.ret, _, err = ert.Execute(code, input, cfg)
			case 1:
				ro.ret, ro.gas, err = ert.Call(h.ContractAddr(0), input, cfg)
			case 2:
				ro.ret, ro.addr, ro.gas, err = ert.Create(input, cfg)
			}
			ro.err = h.ErrClass(err)
		})
		ro.o = h.CollectOutcome(db, h.InvokeResult{}, true, nil)
	}
	res.Count("runtime_runs", 1)
	res.Evals = 1
	if ro.panic != "" {
		res.Count("runtime_reference_panics", 1) // (a generated case the reference itself cannot run: not comparable)
		return
	}
	// domain: an execution that runs bytes the fork names differently is not comparable (checked on the reference's code path
	// by running the same case through the recorder-equipped session)
	rs := h.NewRefSession(dc.World, dc.Env, h.RefOpts{Debug: true, RecSteps: true, LightMem: true})
	tx := dc.Tx
	tx.Entry, tx.From, tx.To, tx.Gas, tx.Value = h.ECall, h.Sender, h.ContractAddr(0), gas, value
	if mode == 2 {
		tx.Entry, tx.Input = h.ECreate, input
	}
	rs.Invoke(tx)
	if out, why := executedOutOfDomain(rs.L, tx, dc.Env.ExtraEips); out {
		res.Count("out_of_domain", 1)
		res.Set("out_of_domain_reasons", why)
		return
	}
	res.Count("runtime_in_domain", 1)
	var d []string
	if fo.panic != "" {
		d = append(d, "fork panicked: "+fo.panic)
	}
	if string(fo.ret) != string(ro.ret) {
		d = append(d, fmt.Sprintf("return data %x vs %x", clipB(fo.ret), clipB(ro.ret)))
	}
	if fo.err != ro.err {
		d = append(d, fmt.Sprintf("error class %q vs %q", fo.err, ro.err))
	}
	if fo.gas != ro.gas {
		d = append(d, fmt.Sprintf("leftover gas %d vs %d", fo.gas, ro.gas))
	}
	if fo.addr != ro.addr {
		d = append(d, fmt.Sprintf("created address %s vs %s", fo.addr.Hex(), ro.addr.Hex()))
	}
	d = append(d, h.DiffOutcome(fo.o, ro.o)...)
	if len(d) > 0 {
		res.Fail(Key("runtime", fmt.Sprintf("mode%d", mode)), "vm/runtime entry point differs from go-ethereum v1.12.0's core/vm/runtime", append([]string{desc}, d...)...)
	}
	res.Shape("runtime", mode, f, fo.err, len(fo.ret))
	res.Set("forks", f.String())
}

type rtChain struct{ c *h.CountingChain }

func (r rtChain) Engine() consensus.Engine { return nil }
func (r rtChain) GetHeader(hash common.Hash, n uint64) *types.Header {
	return r.c.GetHeader(hash, n)
}

// runC01HostCtx compares the host-side constructors field by field and by behaviour.
func runC01HostCtx(c Case, res *CaseResult) {
	r := h.NewRNG(c.Seed)
	for it := 0; it < 40; it++ {
		height := []uint64{1, 2, 100, 256, 257, 258, 1000, 5000}[r.Intn(8)]
		ca, cb := &h.CountingChain{Height: height}, &h.CountingChain{Height: height}
		hdr := ca.Header(height)
		hdr.GasLimit = uint64(r.Intn(1 << 30))
		hdr.Time = uint64(r.Intn(1 << 31))
		hdr.MixDigest = common.BytesToHash(r.Bytes(32))
		if r.Chance(50) {
			hdr.BaseFee = new(big.Int).SetUint64(uint64(r.Intn(1 << 40)))
		}
		if r.Chance(40) {
			hdr.Difficulty = new(big.Int) // post-merge: the mix digest is the randomness
		} else {
			hdr.Difficulty = new(big.Int).SetUint64(uint64(1 + r.Intn(1<<30)))
		}
		author := common.BytesToAddress(r.Bytes(20))
		fb := acore.NewEVMBlockContext(hdr, rtChain{ca}, &author)
		rb := ethcore.NewEVMBlockContext(hdr, rtChain{cb}, &author)
		desc := fmt.Sprintf("header number=%d difficulty=%v basefee=%v gaslimit=%d time=%d", height, hdr.Difficulty, hdr.BaseFee, hdr.GasLimit, hdr.Time)
		rnd := func(p *common.Hash) string {
			if p == nil {
				return "<nil>"
			}
			return p.Hex()
		}
		fsig := fmt.Sprintf("coinbase=%s number=%v time=%d difficulty=%v basefee=%v gaslimit=%d random=%s", fb.Coinbase.Hex(), fb.BlockNumber, fb.Time, fb.Difficulty, fb.BaseFee, fb.GasLimit, rnd(fb.Random))
		rsig := fmt.Sprintf("coinbase=%s number=%v time=%d difficulty=%v basefee=%v gaslimit=%d random=%s", rb.Coinbase.Hex(), rb.BlockNumber, rb.Time, rb.Difficulty, rb.BaseFee, rb.GasLimit, rnd(rb.Random))
		if fsig != rsig {
			res.Fail(Key("hostctx", "block-context"), "core.NewEVMBlockContext differs from go-ethereum v1.12.0", desc, "fork: "+fsig, "ref:  "+rsig)
		}
		// the context must not alias the header's big.Ints (a host reuses headers)
		if fb.BlockNumber == hdr.Number || fb.Difficulty == hdr.Difficulty || (hdr.BaseFee != nil && fb.BaseFee == hdr.BaseFee) {
			res.Fail(Key("hostctx", "aliases-header"), "block context shares a big.Int with the header it was built from (upstream copies them)", desc)
		}
		// block hashes: same answers, same number of header lookups, in any query order
		var qs []uint64
		for k := 0; k < 12; k++ {
			qs = append(qs, []uint64{0, 1, height - 1, height, height + 1, height / 2, height - 256 + uint64(r.Intn(3)), height - 257, uint64(r.Intn(int(height) + 2))}[r.Intn(9)])
		}
		for _, q := range qs {
			if q > height+10 {
				q = 0 // (wrapped subtraction on small heights)
			}
			fh, rh := fb.GetHash(q), rb.GetHash(q)
			if fh != rh || ca.Reads != cb.Reads {
				res.Fail(Key("hostctx", "gethash"), fmt.Sprintf("GetHash(%d) at height %d: %s after %d header reads, upstream %s after %d", q, height, fh.Hex(), ca.Reads, rh.Hex(), cb.Reads), desc)
				break
			}
		}
		// transfer helpers on a real state
		w := h.BaseWorld(nil)
		da, db := w.NewState(), w.NewState()
		amt := new(big.Int).SetUint64(uint64(r.Intn(20000)))
		from, to := h.Pick(r, []common.Address{h.EOARich, h.Sender, h.EOAPoor}), h.Pick(r, []common.Address{h.EOAPoor, h.Nobody, h.EOARich})
		ctA, ctB := fb.CanTransfer(da, from, amt), rb.CanTransfer(db, from, amt)
		if ctA != ctB {
			res.Fail(Key("hostctx", "cantransfer"), fmt.Sprintf("CanTransfer(%s, %v) = %v, upstream %v", from.Hex(), amt, ctA, ctB), desc)
		}
		if ctB {
			fb.Transfer(da, from, to, amt)
			rb.Transfer(db, from, to, amt)
			if da.IntermediateRoot(true) != db.IntermediateRoot(true) {
				res.Fail(Key("hostctx", "transfer"), fmt.Sprintf("Transfer(%s -> %s, %v) leaves a different state than upstream", from.Hex(), to.Hex(), amt), desc)
			}
		}
		// transaction context
		to2 := common.BytesToAddress(r.Bytes(20))
		msg := &ethcore.Message{From: common.BytesToAddress(r.Bytes(20)), To: &to2, Value: big.NewInt(int64(r.Intn(100))), GasLimit: uint64(r.Intn(1 << 24)), GasPrice: big.NewInt(int64(r.Intn(1 << 30))), GasFeeCap: big.NewInt(1), GasTipCap: big.NewInt(1), Data: r.Bytes(r.Intn(40))}
		ft, rt := acore.NewEVMTxContext(msg), ethcore.NewEVMTxContext(msg)
		if ft.Origin != rt.Origin || ft.GasPrice.Cmp(rt.GasPrice) != 0 {
			res.Fail(Key("hostctx", "tx-context"), fmt.Sprintf("NewEVMTxContext: origin %s price %v, upstream origin %s price %v", ft.Origin.Hex(), ft.GasPrice, rt.Origin.Hex(), rt.GasPrice), desc)
		}
		if ft.GasPrice == msg.GasPrice {
			res.Fail(Key("hostctx", "aliases-message"), "transaction context shares the gas price big.Int with the message (upstream copies it)", desc)
		}
		res.Count("hostctx_comparisons", 1)
		res.Evals++
	}
	_ = state.New
}
