package props

import (
	"fmt"
	"math/big"
	"runtime"
	"strings"

	h "verif/harness"
	"verif/models/abibytes"

	avm "github.com/artela-network/artela-evm/vm"
	"github.com/ethereum/go-ethereum/common"
	"github.com/holiman/uint256"
)

// C03 — no bytecode, calldata or storage content can crash the VM; bookkeeping closed afterwards.
// C20 — work done per instruction is bounded by the gas it pays.
// Both drive hostile inputs in address-space-capped worker processes; the StateDB proxy counts
// reads per instruction and aborts an instruction after 2^16 reads (sentinel panic) so that an
// unbounded loop becomes an attributable observation instead of a hung or OOM-killed worker.

const readCap = 1 << 16

type hostileRun struct {
	fs   *h.ForkSession
	irs  []h.InvokeResult
	desc string
	// per-instruction work observations (C20)
	maxReads     uint64
	maxReadsStep *h.Event
	workFindings [][3]string
	hostReads    func() uint64 // reads the host did outside the StateDB (chain headers), when the workload counts them
	maxHostReads uint64
}

var boundaryOperands = func() []*uint256.Int {
	p := func(k uint) *uint256.Int { return new(uint256.Int).Lsh(h.U(1), k) }
	sub1 := func(v *uint256.Int) *uint256.Int { return new(uint256.Int).Sub(v, h.U(1)) }
	return []*uint256.Int{h.U(0), h.U(1), h.U(31), h.U(32), h.U(33), h.U(255), h.U(1 << 16), p(31), sub1(p(32)), new(uint256.Int).Add(p(32), h.U(1)), sub1(p(63)), p(63), sub1(p(64)), p(64), p(128), p(255), new(uint256.Int).Not(h.U(0))}
}()

// runHostile executes txs on one EVM with the per-instruction work monitor attached.
func runHostile(w *h.World, env h.EnvSpec, txs []h.TxSpec, desc string, alloc bool, plan *h.AspectPlan) *hostileRun {
	return runHostileWith(w, env, txs, desc, alloc, plan, nil)
}

func runHostileWith(w *h.World, env h.EnvSpec, txs []h.TxSpec, desc string, alloc bool, plan *h.AspectPlan, setup func(fs *h.ForkSession, hr *hostileRun)) *hostileRun {
	fs := h.NewForkSession(w, env, h.ForkOpts{Debug: true, RecSteps: true, LightMem: true, JoinPoints: plan != nil, Plan: plan})
	hr := &hostileRun{fs: fs, desc: desc}
	if setup != nil {
		setup(fs, hr)
	}
	fs.Proxy.ReadCap = readCap
	var prev *h.Event
	var prevReads, prevAlloc uint64
	var ms runtime.MemStats
	sample := func() uint64 {
		if !alloc {
			return 0
		}
		runtime.ReadMemStats(&ms)
		return ms.TotalAlloc
	}
	if alloc {
		fs.L.Events = make([]h.Event, 0, 1<<10)
	}
	var capAtOpen int   // an interval in which the event log itself had to grow is not measured
	var endAlloc uint64 // sampled at the start of the next instruction callback, before the recorder's copies
	// the first jump of a frame analyses the frame's code once (a bitmap of len(code)/8 bytes paid for by the
	// code's own deposit / calldata / memory cost); every later jump of that frame must not
	jumped := map[*avm.Contract]bool{}
	var prevAllow, prevHost uint64
	var jumpAlloc, jumpGas, jumpAllow, jumps uint64
	closeStep := func(nextMemLen int) {
		if prev == nil {
			return
		}
		if hr.hostReads != nil {
			if d := hr.hostReads() - prevHost; d > hr.maxHostReads {
				hr.maxHostReads = d
			}
			if d := hr.hostReads() - prevHost; d > 257 {
				hr.workFindings = append(hr.workFindings, [3]string{"host-reads", opLocus(prev), fmt.Sprintf("instruction %#x at pc %d made the host read %d chain headers for %d gas (BLOCKHASH can name at most the 256 most recent blocks)", prev.Op, prev.PC, d, prev.Cost)})
			}
		}
		reads := fs.Proxy.Reads - prevReads
		if reads > hr.maxReads {
			hr.maxReads, hr.maxReadsStep = reads, prev
		}
		gas := prev.Cost
		if lim := 16 + gas/20; reads > lim {
			hr.workFindings = append(hr.workFindings, [3]string{"state-reads", opLocus(prev), fmt.Sprintf("instruction %#x at pc %d performed %d state reads for %d gas (bound 16 + gas/20 = %d)", prev.Op, prev.PC, reads, gas, lim)})
		}
		if alloc && endAlloc >= prevAlloc && cap(fs.L.Events) == capAtOpen {
			a := endAlloc - prevAlloc
			// memory the instruction itself adds must be covered by its gas (>= 3 gas per 32 bytes); copies of
			// memory that already existed before it (RETURN, LOG, call arguments) were paid for when it was expanded
			if lim := uint64(64<<10) + 64*gas + 4*uint64(prev.MemLen) + prevAllow; a > lim {
				hr.workFindings = append(hr.workFindings, [3]string{"allocation", opLocus(prev), fmt.Sprintf("instruction %#x at pc %d allocated %d bytes for %d gas with %d bytes of memory before it (bound 64KiB + 64*gas + 4*mem = %d)", prev.Op, prev.PC, a, gas, prev.MemLen, lim)})
			}
			if prev.Op == h.JUMP || prev.Op == h.JUMPI {
				jumpAlloc, jumpGas, jumpAllow, jumps = jumpAlloc+a, jumpGas+gas, jumpAllow+prevAllow, jumps+1
			}
		}
		prev = nil
	}
	fs.Rec.PreStep = func() { endAlloc = sample() }
	fs.Rec.OnStep = func(e *h.Event, scope *avm.ScopeContext) {
		closeStep(e.MemLen)
		// open the next instruction AFTER the recorder's own copies were made
		prevAllow = 0
		if (e.Op == h.JUMP || e.Op == h.JUMPI) && scope != nil && scope.Contract != nil && !jumped[scope.Contract] {
			jumped[scope.Contract] = true
			prevAllow = uint64(len(scope.Contract.Code))/4 + 64
		}
		if hr.hostReads != nil {
			prevHost = hr.hostReads()
		}
		prev = e
		prevReads = fs.Proxy.Reads
		fs.Proxy.ReadMark = fs.Proxy.Reads
		prevAlloc = sample()
		capAtOpen = cap(fs.L.Events)
		if len(fs.L.Events)+8 > capAtOpen {
			capAtOpen = -1 // about to grow: skip
		}
	}
	for _, tx := range txs {
		ir := fs.Invoke(tx)
		if ir.Panic == "READLIMIT" && prev != nil {
			hr.workFindings = append(hr.workFindings, [3]string{"unbounded-state-reads", opLocus(prev), fmt.Sprintf("instruction %#x at pc %d performed more than %d state reads for %d gas (run aborted by the monitor)", prev.Op, prev.PC, readCap, prev.Cost)})
			prev = nil
		} else {
			endAlloc = sample()
			closeStep(0)
		}
		hr.irs = append(hr.irs, ir)
		if ir.Panic != "" {
			break
		}
	}
	// jumps pay 8/10 gas and own no memory: summed over a run their allocation must stay within the same bound
	// (catches a small per-jump cost that no single instruction's 64 KiB slack would show)
	if alloc && jumps > 0 {
		if lim := uint64(256<<10) + 64*jumpGas + jumpAllow; jumpAlloc > lim {
			hr.workFindings = append(hr.workFindings, [3]string{"allocation-sum", "jumps", fmt.Sprintf("%d JUMP/JUMPI instructions allocated %d bytes in total for %d gas (bound 256KiB + 64*gas + one code analysis per frame = %d)", jumps, jumpAlloc, jumpGas, lim)})
		}
	}
	return hr
}

func opLocus(e *h.Event) string {
	if h.IsJournalOp(e.Op) {
		return fmt.Sprintf("op%02x", e.Op)
	}
	if isCallOp(e.Op) && len(e.Stack) >= 2 {
		a := common.Address(e.Stack[len(e.Stack)-2].Bytes20())
		if a[19] >= 100 && a[19] <= 102 {
			return fmt.Sprintf("call-0x%02x", a[19])
		}
		return "call"
	}
	return fmt.Sprintf("op%02x", e.Op)
}

// panicLocus classifies a panic by the innermost artela-evm function on the stack.
func panicLocus(stk string) string {
	for _, marker := range []string{"vm.opReferenceChangeJournal", "vm.opValueChangeJournal", "vm.loadDataFromMem", "vm.loadParamBytes", "vm.(*contextWriter)", "vm.(*aspcontext)", "vm.(*userOpSender)", "vm.(*Memory)", "vm.(*StateChanges)", "vm.(*Tracer)", "vm.(*CallTree)", "native.(*callTracer)", "native.(*flatCallTracer)"} {
		if idx := indexOf(stk, marker); idx >= 0 {
			return marker[3:]
		}
	}
	return "other"
}

func indexOf(s, sub string) int {
	for i := 0; i+len(sub) <= len(s); i++ {
		if s[i:i+len(sub)] == sub {
			return i
		}
	}
	return -1
}

// checkClosed applies C03's oracles to a hostile run.
func checkClosed(res *CaseResult, hr *hostileRun, class string) {
	res.Count("executions", int64(len(hr.irs)))
	for _, ir := range hr.irs {
		if ir.Panic == "READLIMIT" {
			for _, wf := range hr.workFindings {
				if wf[0] == "unbounded-state-reads" {
					res.Fail(Key("work-cap", wf[1]), "the VM entered a loop of attacker-chosen length (more than 2^16 state reads in one instruction; would end in memory exhaustion or a hang): "+wf[2], hr.desc)
				}
			}
			return
		}
		if ir.Panic != "" {
			res.Fail(Key("panic", panicLocus(ir.PanicStk), class), "a Go panic escaped the entry point: "+firstLine(ir.Panic), hr.desc, clip(ir.PanicStk, 1800))
			return
		}
	}
	ct := hr.fs.EVM.Tracer().CallTree()
	if ct.Current() != nil {
		res.Fail(Key("cursor-open", class), fmt.Sprintf("call-tree cursor left on call #%d after return", ct.Current().Index), hr.desc)
	}
	if hr.fs.EVM.VerifDepth() != 0 {
		res.Fail(Key("depth-open", class), fmt.Sprintf("call depth %d after return", hr.fs.EVM.VerifDepth()), hr.desc)
	}
	if hr.fs.EVM.VerifReadOnly() {
		res.Fail(Key("readonly-stuck", class), "static-context flag still set after return", hr.desc)
	}
	// a follow-up top-level call on the same EVM must be announced as a depth-0 Start
	n0 := len(hr.fs.L.Events)
	// (zero value: the hostile program may have emptied or destroyed the sender, and a refused transfer returns before the tracer is told)
	ir := hr.fs.Invoke(h.TxSpec{Entry: h.ECall, From: h.Sender, To: h.ContractAddr(0), Gas: 30000, Value: new(big.Int)})
	if ir.Panic != "" {
		res.Fail(Key("panic-followup", panicLocus(ir.PanicStk), class), "follow-up call panicked: "+firstLine(ir.Panic), hr.desc, clip(ir.PanicStk, 1500))
		return
	}
	sawStart := false
	for i := n0; i < len(hr.fs.L.Events); i++ {
		switch hr.fs.L.Events[i].K {
		case h.KStart:
			sawStart = true
		case h.KEnter:
			if !sawStart {
				res.Fail(Key("followup-not-start", class), "a follow-up top-level call was announced as a nested frame (call depth not back to rest)", hr.desc)
			}
		}
	}
	if !sawStart {
		res.Fail(Key("followup-not-start", class), "a follow-up top-level call was not announced to the debug tracer as a depth-0 start", hr.desc)
	}
}

// ---------- input generators

func memShape(a *h.Asm, r *h.RNG, shape int) (memLen uint64) {
	switch shape {
	case 0: // empty
		return 0
	case 1, 2, 3:
		for i := 0; i < shape; i++ {
			a.Push(h.Pick(r, boundaryOperands)).PushU(uint64(32 * i)).Op(h.MSTORE)
		}
		return uint64(32 * shape)
	default: // 544 bytes, length words at several places
		for i := 0; i < 17; i++ {
			if i%4 == 0 {
				a.Push(h.Pick(r, boundaryOperands)).PushU(uint64(32 * i)).Op(h.MSTORE)
			} else {
				a.Push(r.U256()).PushU(uint64(32 * i)).Op(h.MSTORE)
			}
		}
		return 544
	}
}

func storageShape(r *h.RNG, slot *uint256.Int) (map[common.Hash]common.Hash, string) {
	st := map[common.Hash]common.Hash{}
	k := common.Hash(slot.Bytes32())
	lw := func(v *uint256.Int) common.Hash { return common.Hash(v.Bytes32()) }
	longLen := func(l *uint256.Int) common.Hash {
		v := new(uint256.Int).Lsh(l, 1)
		return lw(v.Add(v, h.U(1)))
	}
	switch r.Intn(12) {
	case 0:
		return st, "empty"
	case 1:
		st[k] = common.HexToHash("0x6162630000000000000000000000000000000000000000000000000000000006")
		return st, "short"
	case 2:
		st[k] = common.HexToHash("0x0000000000000000000000000000000000000000000000000000000000000006")
		return st, "short-allzero"
	case 3:
		st[k] = lw(h.U(81))
		return st, "long40"
	case 4:
		st[k] = lw(h.U(0x40))
		return st, "bad-short32"
	case 5:
		st[k] = lw(h.U(0x3f))
		return st, "bad-long31"
	case 6:
		st[k] = longLen(h.U(1 << 12))
		return st, "long-2^12"
	case 7:
		st[k] = longLen(h.U(1 << 20))
		return st, "long-2^20"
	case 8:
		st[k] = longLen(new(uint256.Int).Lsh(h.U(1), uint(h.Pick(r, []int{22, 32, 40, 62}))))
		return st, "long-huge"
	case 9:
		st[k] = lw(new(uint256.Int).Not(h.U(0)))
		return st, "all-ff"
	case 10:
		st[k] = longLen(new(uint256.Int).Sub(new(uint256.Int).Lsh(h.U(1), 64), h.U(1)))
		return st, "long-2^64-1"
	default:
		st[k] = lw(r.U256())
		return st, "random"
	}
}

// journalOperandProgram builds: memory shape, then one journal instruction with the given operands.
func journalOperandProgram(r *h.RNG, op byte, ops []*uint256.Int, shape int, register bool) []byte {
	a := h.NewAsm()
	memShape(a, r, shape)
	if register {
		// make the key known so that the journal instruction reaches its decoding code
		a.MstoreName(0x400, []byte("v"))
		switch op {
		case h.VVJNAL:
			a.Journal(h.VSVJNAL, h.U(0x400), ops[0], h.U(0), ops[3])
		case h.VRJNAL:
			a.Journal(h.RSVJNAL, h.U(0x400), ops[0], ops[1])
		}
	}
	a.Journal(op, ops...)
	a.Op(h.STOP)
	return a.Bytes()
}

var allJournalOps = []byte{h.RSVJNAL, h.VSVJNAL, h.IRVVJNAL, h.IRVRJNAL, h.IVVVJNAL, h.IVVRJNAL, h.VVJNAL, h.VRJNAL}

func baseOperands(op byte) []*uint256.Int {
	n := h.JournalPops[op]
	ops := make([]*uint256.Int, n)
	for i := range ops {
		ops[i] = h.U(uint64(i))
	}
	switch op {
	case h.VVJNAL:
		ops[0], ops[1], ops[2], ops[3] = h.U(3), h.U(0), h.U(32), jTypU
	case h.VRJNAL:
		ops[0], ops[1] = h.U(3), jTypStr
	case h.RSVJNAL:
		ops[0], ops[1], ops[2] = h.U(0), h.U(3), jTypStr
	case h.VSVJNAL:
		ops[0], ops[1], ops[2], ops[3] = h.U(0), h.U(3), h.U(0), jTypU
	}
	return ops
}

type stdMemOp struct {
	name  string
	sweep int // number of swept operands
	emit  func(a *h.Asm, v []*uint256.Int)
}

var stdOpBoundary = func() []*uint256.Int {
	p := func(k uint) *uint256.Int { return new(uint256.Int).Lsh(h.U(1), k) }
	return []*uint256.Int{h.U(0), h.U(1), h.U(31), h.U(32), h.U(33), h.U(64), h.U(65), h.U(1000), p(16), p(32), new(uint256.Int).Sub(p(64), h.U(1)), p(64), new(uint256.Int).Not(h.U(0))}
}()

var stdOpBoundarySmall = func() []*uint256.Int {
	p := func(k uint) *uint256.Int { return new(uint256.Int).Lsh(h.U(1), k) }
	return []*uint256.Int{h.U(0), h.U(1), h.U(33), h.U(64), h.U(1000), new(uint256.Int).Sub(p(64), h.U(1)), new(uint256.Int).Not(h.U(0))}
}()

// operands are pushed in the order given: the LAST one ends on top of the stack
var stdMemOps = func() []stdMemOp {
	push := func(a *h.Asm, v []*uint256.Int) {
		for _, x := range v {
			a.Push(x)
		}
	}
	simple := func(name string, n int, op byte, pops bool) stdMemOp {
		return stdMemOp{name, n, func(a *h.Asm, v []*uint256.Int) {
			push(a, v)
			a.Op(op)
			if pops {
				a.Op(h.POP)
			}
		}}
	}
	ops := []stdMemOp{
		simple("KECCAK256(len,off)", 2, h.KECCAK256, true),
		simple("MLOAD(off)", 1, h.MLOAD, true),
		simple("MSTORE(val,off)", 2, h.MSTORE, false),
		simple("MSTORE8(val,off)", 2, h.MSTORE8, false),
		simple("CALLDATALOAD(off)", 1, h.CALLDATALOAD, true),
		simple("CALLDATACOPY(len,src,dst)", 3, h.CALLDATACOPY, false),
		simple("CODECOPY(len,src,dst)", 3, h.CODECOPY, false),
		simple("RETURNDATACOPY(len,src,dst)", 3, h.RETURNDATACOPY, false),
		simple("MCOPY(len,src,dst)", 3, h.MCOPY, false),
		simple("RETURN(len,off)", 2, h.RETURN, false),
		simple("REVERT(len,off)", 2, h.REVERT, false),
		simple("LOG0(len,off)", 2, h.LOG0, false),
		simple("CREATE(len,off,value)", 3, h.CREATE, true),
		{"EXTCODECOPY(len,src,dst)", 3, func(a *h.Asm, v []*uint256.Int) { push(a, v); a.PushAddr(h.ContractAddr(0)).Op(h.EXTCODECOPY) }},
		{"LOG2(len,off)", 2, func(a *h.Asm, v []*uint256.Int) { a.PushU(1).PushU(2); push(a, v); a.Op(h.LOG0 + 2) }},
		{"CREATE2(len,off)", 2, func(a *h.Asm, v []*uint256.Int) { a.PushU(9); push(a, v); a.PushU(0).Op(h.CREATE2, h.POP) }},
		{"RETURNDATACOPY after a call(len,src,dst)", 3, func(a *h.Asm, v []*uint256.Int) {
			a.PushU(0).PushU(0).PushU(33).PushU(0).PushU(0).PushAddr(common.BytesToAddress([]byte{4})).PushU(50000).Op(h.CALL, h.POP)
			push(a, v)
			a.Op(h.RETURNDATACOPY)
		}},
	}
	// three stores in a row to a slot whose committed value is non-zero (slot 1) and to a fresh one (slot 2): every
	// (original, current, new) transition of the net-metering rules, refund counter included
	ops = append(ops, stdMemOp{"SSTORE x3 to slots 1 and 2 (v3,v2,v1)", 3, func(a *h.Asm, v []*uint256.Int) {
		for _, slot := range []uint64{1, 2} {
			for i := len(v) - 1; i >= 0; i-- {
				a.Push(v[i]).PushU(slot).Op(h.SSTORE)
			}
		}
	}})
	for _, k := range []byte{h.CALL, h.CALLCODE, h.DELEGATECALL, h.STATICCALL} {
		kind := k
		for _, tgt := range []common.Address{h.ContractAddr(1), common.BytesToAddress([]byte{4}), h.EOARich} {
			t := tgt
			ops = append(ops, stdMemOp{fmt.Sprintf("call %#x to %s (outLen,outOff,inLen,inOff)", kind, t.Hex()[36:]), 4, func(a *h.Asm, v []*uint256.Int) {
				push(a, v)
				if kind == h.CALL || kind == h.CALLCODE {
					a.PushU(0)
				}
				a.PushAddr(t).PushU(50000).Op(kind, h.POP)
			}})
		}
	}
	return ops
}()

func hexs(v []*uint256.Int) []string {
	var out []string
	for _, x := range v {
		out = append(out, x.Hex())
	}
	return out
}

type hostileCase struct {
	w    *h.World
	env  h.EnvSpec
	txs  []h.TxSpec
	desc string
	cls  string
	plan *h.AspectPlan
}

func genHostile(c Case, tier string) []hostileCase {
	r := h.NewRNG(c.Seed)
	var out []hostileCase
	forkOf := func() h.Fork { return h.Fork(r.Intn(int(h.NumForks))) }
	switch c.Kind {
	case "raw":
		for it := 0; it < 10; it++ {
			n := 1 + r.Intn(160)
			code := r.Bytes(n)
			// bias: sprinkle journal opcodes, pushes of boundary values and calls to the Artela precompiles
			for k := 0; k < n/6; k++ {
				p := r.Intn(n)
				switch r.Intn(4) {
				case 0:
					code[p] = byte(0xe0 + r.Intn(8))
				case 1:
					code[p] = h.Pick(r, []byte{h.CALL, h.CALLCODE, h.DELEGATECALL, h.STATICCALL, h.CREATE, h.CREATE2, h.MSTORE, h.SSTORE, h.MCOPY, h.TSTORE})
				case 2:
					code[p] = byte(h.PUSH1 + r.Intn(32))
				default:
					code[p] = h.Pick(r, []byte{100, 101, 102, 0x60, 0x7f})
				}
			}
			f := forkOf()
			entry := h.Entry(r.Intn(6))
			w := h.BaseWorld([][]byte{code, r.Bytes(1 + r.Intn(60))})
			tx := h.TxSpec{Entry: entry, From: h.Sender, To: h.ContractAddr(0), Input: genCalldata(r), Gas: genGas(r) + 20000, Value: genValue(r)}
			if entry == h.ECreate || entry == h.ECreate2 {
				tx.Input = code
				tx.Salt = h.U(uint64(r.Intn(3)))
			}
			out = append(out, hostileCase{w, h.EnvSpec{Fork: f}, []h.TxSpec{tx}, fmt.Sprintf("raw code fork=%s entry=%s gas=%d code=%x", f, entry, tx.Gas, code), "raw", nil})
		}
	case "jop":
		op := byte(c.P[0])
		base := baseOperands(op)
		n := len(base)
		mk := func(ops []*uint256.Int, why string) {
			shape := r.Intn(5)
			f := forkOf()
			register := (op == h.VVJNAL || op == h.VRJNAL) && r.Chance(70)
			code := journalOperandProgram(r, op, ops, shape, register)
			w := h.BaseWorld([][]byte{code})
			slot := ops[0]
			if op == h.RSVJNAL || op == h.VSVJNAL {
				slot = ops[1]
			}
			st, sname := storageShape(r, slot)
			for k, v := range st {
				w.Get(h.ContractAddr(0)).Storage[k] = v
			}
			var os []string
			for _, o := range ops {
				os = append(os, o.Hex())
			}
			out = append(out, hostileCase{w, h.EnvSpec{Fork: f}, []h.TxSpec{{Entry: h.ECall, From: h.Sender, To: h.ContractAddr(0), Gas: 5_000_000}},
				fmt.Sprintf("journal op %#x (%s) operands(top first)=%v memory shape %d storage %s registered=%v fork=%s", op, why, os, shape, sname, register, f), fmt.Sprintf("op%02x", op), nil})
		}
		// one operand at a time over the boundary set and memory-length-relative values
		rel := []*uint256.Int{h.U(0x400 - 33), h.U(0x400 - 32), h.U(0x400 - 1), h.U(0x400), h.U(0x401), h.U(0x41f), h.U(0x420), h.U(0x421), h.U(511), h.U(512), h.U(543), h.U(544), h.U(545)}
		for i := 0; i < n; i++ {
			for _, b := range append(append([]*uint256.Int{}, boundaryOperands...), rel...) {
				ops := append([]*uint256.Int{}, base...)
				ops[i] = b
				mk(ops, fmt.Sprintf("operand %d swept", i))
			}
		}
		// random combinations
		k := 60
		if !quick(tier) {
			k = 1500
		}
		for j := 0; j < k; j++ {
			ops := make([]*uint256.Int, n)
			for i := range ops {
				if r.Chance(60) {
					ops[i] = h.Pick(r, boundaryOperands)
				} else {
					ops[i] = base[i]
				}
			}
			mk(ops, "random combination")
		}
	case "pcall":
		for it := 0; it < 20; it++ {
			f := h.Pick(r, []h.Fork{h.Istanbul, h.Berlin, h.London, h.Shanghai, h.Cancun})
			kind := h.Pick(r, c14Kinds)
			target := common.BytesToAddress([]byte{byte(100 + r.Intn(3))})
			var payload []byte
			if r.Chance(50) {
				payload = abibytes.Encode(r.Bytes(r.Intn(40)), r.Bytes(r.Intn(60)))
				for m := 0; m < 1+r.Intn(2); m++ {
					setWord(payload, 32*r.Intn(len(payload)/32), h.Pick(r, c14HeadWords))
				}
				if r.Chance(30) {
					payload = payload[:r.Intn(len(payload)+1)]
				}
			} else {
				payload = r.Bytes(r.Intn(400))
			}
			depth := h.Pick(r, []int{1, 3})
			codes := make([][]byte, depth)
			for i := 0; i < depth-1; i++ {
				codes[i] = c14Forwarder(h.ContractAddr(i + 1))
			}
			codes[depth-1] = c14Last(kind, target, h.Pick(r, []uint64{100000, 100000, 100000, 4999, 256}), f)
			out = append(out, hostileCase{h.BaseWorld(codes), h.EnvSpec{Fork: f}, []h.TxSpec{{Entry: h.ECall, From: h.Sender, To: h.ContractAddr(0), Input: payload, Gas: 6_000_000}},
				fmt.Sprintf("%s to 0x%02x from depth %d fork=%s payload=%x", kindName(kind), target[19], depth, f, payload), fmt.Sprintf("call-0x%02x", target[19]), nil})
		}
	case "allops":
		// every opcode byte at every stack height 0..18 and at the limit: declared stack bounds must protect the implementation
		f := h.Fork(c.P[0])
		for op := int(c.P[1]) * 16; op < int(c.P[1])*16+16; op++ {
			if op >= 0x60 && op <= 0x7f && op != 0x60 && op != 0x7f {
				continue // PUSHn: two representatives are enough
			}
			for _, hgt := range []int{0, 1, 2, 3, 4, 5, 6, 7, 8, 9, 10, 11, 12, 13, 14, 15, 16, 17, 18, 1023, 1024} {
				a := h.NewAsm()
				for i := 0; i < hgt; i++ {
					a.Op(h.PUSH1, byte(i%7))
				}
				a.Op(byte(op), h.STOP)
				out = append(out, hostileCase{h.BaseWorld([][]byte{a.Bytes(), {h.STOP}}), h.EnvSpec{Fork: f}, []h.TxSpec{{Entry: h.ECall, From: h.Sender, To: h.ContractAddr(0), Gas: 300000, Input: []byte{1, 2, 3, 4}}},
					fmt.Sprintf("opcode %#x with %d small words on the stack, fork=%s", op, hgt, f), "allops", nil})
			}
		}
	case "stdops":
		// every standard instruction that takes memory offsets / lengths, its operands swept over boundary values
		// under two memory shapes: the declared memory-size function has to cover what the implementation touches
		f := h.Fork(c.P[0])
		lo := stdMemOps[c.P[1]]
		vals := stdOpBoundary
		if lo.sweep >= 4 {
			vals = stdOpBoundarySmall
		}
		idx := make([]int, lo.sweep)
		for {
			for shape := 0; shape < 2; shape++ {
				a := h.NewAsm()
				if shape == 1 {
					a.Push(r.U256()).PushU(0).Op(h.MSTORE).Push(r.U256()).PushU(32).Op(h.MSTORE)
				}
				ops := make([]*uint256.Int, lo.sweep)
				for i := range idx {
					ops[i] = vals[idx[i]]
				}
				lo.emit(a, ops)
				a.Op(h.STOP)
				w := h.BaseWorld([][]byte{a.Bytes(), {h.STOP}})
				w.Get(h.ContractAddr(0)).Storage[h.HashU(1)] = h.HashU(5)
				out = append(out, hostileCase{w, h.EnvSpec{Fork: f}, []h.TxSpec{{Entry: h.ECall, From: h.Sender, To: h.ContractAddr(0), Gas: 400000, Input: []byte{1, 2, 3, 4, 5, 6, 7, 8, 9, 10, 11, 12, 13, 14, 15, 16, 17, 18, 19, 20, 21, 22, 23, 24, 25, 26, 27, 28, 29, 30, 31, 32, 33}}},
					fmt.Sprintf("%s operands %v (top of stack last) memory shape %d fork=%s", lo.name, hexs(ops), shape, f), "stdops", nil})
			}
			k := 0
			for k < len(idx) {
				idx[k]++
				if idx[k] < len(vals) {
					break
				}
				idx[k] = 0
				k++
			}
			if k == len(idx) {
				break
			}
		}
	case "jseq":
		// sequences of journal instructions over SMALL domains (two names, three slots, two offsets, four types), so that
		// names meet again with other slots, slots with other names and types, parents with and without changes of their
		// own, registrations with journals in every order - each operand well formed on its own
		for it := 0; it < 12; it++ {
			// every instruction runs in a frame of its own (DELEGATECALL: same storage, same journal account), so that a
			// refused one ends only its own frame and the sequence goes on
			var helpers [][]byte
			var a *h.Asm
			names := [][]byte{[]byte("a"), []byte("b"), []byte("a")}
			slots := []uint64{20, 21, 22}
			offs := []uint64{0, 16}
			typs := []*uint256.Int{jTypU, jTypP, jTypStr, jTypMap}
			k := 5 + r.Intn(10)
			var txt []string
			for j := 0; j < k; j++ {
				a = h.NewAsm()
				nm, sl, of, ty := h.Pick(r, names), h.Pick(r, slots), h.Pick(r, offs), h.Pick(r, typs)
				sl2 := h.Pick(r, slots)
				switch r.Intn(9) {
				case 0:
					a.MstoreName(memJ, nm).Journal(h.RSVJNAL, h.U(memJ), h.U(sl), ty)
					txt = append(txt, fmt.Sprintf("reg-ref(%s,%d)", nm, sl))
				case 1:
					a.MstoreName(memJ, nm).Journal(h.VSVJNAL, h.U(memJ), h.U(sl), h.U(of), ty)
					txt = append(txt, fmt.Sprintf("reg-val(%s,%d,%d)", nm, sl, of))
				case 2:
					a.Journal(h.IVVVJNAL, h.U(sl), h.U(sl2), h.U(uint64(r.Intn(2))), h.U(of), ty, h.Pick(r, typs))
					txt = append(txt, fmt.Sprintf("reg-elem-val(%d,%d,%d)", sl, sl2, of))
				case 3:
					a.Journal(h.IVVRJNAL, h.U(sl), h.U(sl2), h.U(uint64(r.Intn(2))), ty, h.Pick(r, typs))
					txt = append(txt, fmt.Sprintf("reg-elem-ref(%d,%d)", sl, sl2))
				case 4:
					a.MstoreName(memJ+0x40, nm).Journal(h.IRVVJNAL, h.U(sl), h.U(sl2), h.U(memJ+0x40), h.U(of), ty, h.Pick(r, typs))
					txt = append(txt, fmt.Sprintf("reg-key-val(%d,%d,%s,%d)", sl, sl2, nm, of))
				case 5:
					a.MstoreName(memJ+0x40, nm).Journal(h.IRVRJNAL, h.U(sl), h.U(sl2), h.U(memJ+0x40), ty, h.Pick(r, typs))
					txt = append(txt, fmt.Sprintf("reg-key-ref(%d,%d,%s)", sl, sl2, nm))
				case 6:
					a.Journal(h.VVJNAL, h.U(sl), h.U(of), h.U(16), ty)
					txt = append(txt, fmt.Sprintf("journal-val(%d,%d)", sl, of))
				case 7:
					a.Journal(h.VRJNAL, h.U(sl), ty)
					txt = append(txt, fmt.Sprintf("journal-ref(%d)", sl))
				default:
					a.Push(h.Pick(r, []*uint256.Int{h.U(0), h.U(7), h.U(0x41), h.U(10), new(uint256.Int).Lsh(h.U(9), 128)})).PushU(sl).Op(h.SSTORE)
					txt = append(txt, fmt.Sprintf("store(%d)", sl))
				}
				a.Op(h.STOP)
				helpers = append(helpers, a.Bytes())
			}
			main := h.NewAsm()
			for j := range helpers {
				switch r.Intn(6) {
				case 0: // (a frame of its own account, reached only by a static call)
					main.PushU(0).PushU(0).PushU(0).PushU(0).PushAddr(h.ContractAddr(j+1)).PushU(150000).Op(h.STATICCALL, h.POP)
				case 1:
					main.PushU(0).PushU(0).PushU(0).PushU(0).PushU(0).PushAddr(h.ContractAddr(j+1)).PushU(150000).Op(h.CALL, h.POP)
				case 2:
					main.PushU(0).PushU(0).PushU(0).PushU(0).PushU(0).PushAddr(h.ContractAddr(j+1)).PushU(150000).Op(h.CALLCODE, h.POP)
				default:
					main.PushU(0).PushU(0).PushU(0).PushU(0).PushAddr(h.ContractAddr(j+1)).PushU(150000).Op(h.DELEGATECALL, h.POP)
				}
			}
			main.Op(h.STOP)
			out = append(out, hostileCase{h.BaseWorld(append([][]byte{main.Bytes()}, helpers...)), h.EnvSpec{Fork: h.Pick(r, []h.Fork{h.Byzantium, h.Berlin, h.Shanghai, h.Cancun})}, []h.TxSpec{{Entry: h.ECall, From: h.Sender, To: h.ContractAddr(0), Gas: 3_000_000}},
				"journal sequence: " + strings.Join(txt, " "), "jseq", nil})
		}
	case "jp":
		// call trees with real Aspects bound and a failure at one join-point firing (every early-return path of the call routine)
		sc, rr := jpScenario(c.Seed)
		plan := bindPlan(rr, sc, 60, []uint32{0, 10, 100_000_000}, 20)
		probe := h.NewForkSession(sc.World, h.EnvSpec{Fork: sc.Fork}, h.ForkOpts{Debug: true, JoinPoints: true, Plan: plan})
		probe.Invoke(sc.Tx)
		fir := firingsOf(probe.L)
		out = append(out, hostileCase{sc.World, h.EnvSpec{Fork: sc.Fork}, []h.TxSpec{sc.Tx}, "Aspect-bound call tree: " + sc.desc(), "jp", plan})
		for k := 0; k < 6 && len(fir) > 0; k++ {
			f := fir[r.Intn(len(fir))]
			p := clonePlan(plan)
			kind := r.Intn(4)
			p.FailAt[f.idx] = injectedErr(kind)
			out = append(out, hostileCase{sc.World, h.EnvSpec{Fork: sc.Fork}, []h.TxSpec{sc.Tx}, fmt.Sprintf("Aspect-bound call tree, %s failure at firing %d (%s): %s", injectedErrNames[kind], f.idx, f.pointcut, sc.desc()), "jpfail", p})
		}
	case "mut":
		// mutated well-formed journal programs
		for it := 0; it < 6; it++ {
			sc, _ := journalScenario(h.Mix(c.Seed, uint64(it)), c10Kinds, h.Frontier, h.Cancun)
			for ci := range sc.Codes {
				code := append([]byte{}, sc.Codes[ci]...)
				for m := 0; m < 1+r.Intn(4) && len(code) > 0; m++ {
					p := r.Intn(len(code))
					switch r.Intn(3) {
					case 0:
						code[p] ^= byte(1 << uint(r.Intn(8)))
					case 1:
						code[p] = byte(0xe0 + r.Intn(8))
					default:
						code[p] = 0xff - code[p]
					}
				}
				sc.World.Get(h.ContractAddr(ci)).Code = code
			}
			out = append(out, hostileCase{sc.World, h.EnvSpec{Fork: sc.Fork}, []h.TxSpec{sc.Tx}, "mutated journal program: " + sc.desc(), "mut", nil})
		}
	}
	return out
}

func hostileCases(seed uint64, tier string, salt uint64) []Case {
	nr, np, nm := 250, 60, 40
	if !quick(tier) {
		nr, np, nm = 20000, 3000, 2000
	}
	var cs []Case
	for i := 0; i < nr; i++ {
		cs = append(cs, Case{Kind: "raw", Seed: h.Mix(seed, salt, uint64(i))})
	}
	for _, op := range allJournalOps {
		cs = append(cs, Case{Kind: "jop", P: []int64{int64(op)}, Seed: h.Mix(seed, salt+1, uint64(op))})
	}
	for i := 0; i < np; i++ {
		cs = append(cs, Case{Kind: "pcall", Seed: h.Mix(seed, salt+2, uint64(i))})
	}
	for i := 0; i < nm; i++ {
		cs = append(cs, Case{Kind: "mut", Seed: h.Mix(seed, salt+3, uint64(i))})
	}
	if salt == 0xC03 {
		for _, f := range []h.Fork{h.Frontier, h.Cancun} {
			for chunk := 0; chunk < 16; chunk++ {
				cs = append(cs, Case{Kind: "allops", P: []int64{int64(f), int64(chunk)}})
			}
		}
		for _, f := range []h.Fork{h.Frontier, h.Byzantium, h.Shanghai, h.Cancun} {
			for i := range stdMemOps {
				cs = append(cs, Case{Kind: "stdops", P: []int64{int64(f), int64(i)}, Seed: h.Mix(seed, salt+5, uint64(f), uint64(i))})
			}
		}
		for _, f := range []h.Fork{h.Constantinople, h.Petersburg, h.Istanbul, h.Berlin, h.London} { // (one store-pricing rule each)
			for i, o := range stdMemOps {
				if strings.HasPrefix(o.name, "SSTORE") {
					cs = append(cs, Case{Kind: "stdops", P: []int64{int64(f), int64(i)}, Seed: h.Mix(seed, salt+5, uint64(f), uint64(i))})
				}
			}
		}
		nj := 60
		if !quick(tier) {
			nj = 3000
		}
		for i := 0; i < nj; i++ {
			cs = append(cs, Case{Kind: "jseq", Seed: h.Mix(seed, salt+6, uint64(i))})
		}
		// (C20's work counters would charge an Aspect's own execution to the neighbouring instruction)
		for i := 0; i < nm/2; i++ {
			cs = append(cs, Case{Kind: "jp", Seed: h.Mix(seed, salt+4, uint64(i))})
		}
	}
	return cs
}

func init() {
	Register(&Prop{
		ID:      "C03",
		Level:   "exploration",
		Hostile: true,
		Rule: "hostile inputs run on a fully initialised host in address-space-capped worker processes that journal each case before executing it (a fatal error kills only the worker and is attributed to its case): kind raw = random byte strings as code (biased towards journal opcodes, calls to 0x64-0x66, boundary pushes) x random calldata x all forks Frontier..Cancun x all six entry points; kind jop = for each journal opcode every operand position swept over {0,1,31,32,33,255,2^16,2^31,2^32-1,2^32+1,2^63-1,2^63,2^64-1,2^64,2^128,2^255,2^256-1, memLen-33..memLen+1} plus random combinations, under memory shapes {empty,32,64,96,544 bytes with boundary length words} and storage shapes {empty, short, all-zero, long, invalid encodings, lengths 2^12..2^64-1}; kind pcall = every call kind to 0x64-0x66 from depth 1 and 3 with truncated / overflowing ABI payloads; kind mut = byte-mutated well-formed journal programs; kind allops = every opcode byte at stack heights 0..18, 1023, 1024 on Frontier and Cancun; kind stdops = every standard instruction taking memory offsets/lengths (hash, loads/stores, the five copies incl. MCOPY, RETURN/REVERT, LOG, CREATE/CREATE2, the four calls) with all operands swept over {0,1,31,32,33,64,65,1000,2^16,2^32,2^64-1,2^64,2^256-1} under two memory shapes on Frontier/Byzantium/Shanghai/Cancun; kind jp = Aspect-bound call trees (real WASM Aspects incl. trapping and gas-exhausting ones) with a provider failure injected at a join-point firing. " +
			"Oracles: no Go panic escapes an entry point, no worker dies; afterwards CallTree().Current()==nil, call depth 0, static flag clear, and a follow-up top-level call on the same EVM is announced to the debug tracer as a depth-0 Start; a read-cap sentinel (2^16 state reads in one instruction) turns unbounded loops into attributable findings; distinct_nontrivial = distinct (input class, fork, outcome) event shapes",
		Assumptions: []string{"host initialised as an embedding chain does (chain config, block context with block number, provider, context callbacks)", "crashes needing one specific 256-bit value outside the boundary sets and random draws are not found"},
		Cases:       func(seed uint64, tier string) []Case { return hostileCases(seed, tier, 0xC03) },
		Run: func(c Case, tier string) (res CaseResult) {
			for _, hc := range genHostile(c, tier) {
				hr := runHostile(hc.w, hc.env, hc.txs, hc.desc, false, hc.plan)
				checkClosed(&res, hr, hc.cls)
				res.Evals++
				last := hr.irs[len(hr.irs)-1]
				res.Shape(hc.cls, hc.env.Fork, clip(last.ErrClass, 30), shapeOf(hr.fs.L))
				res.Set("forks", hc.env.Fork.String())
				res.Set("input_classes", hc.cls)
				res.Set("outcomes", clip(last.ErrClass, 40))
			}
			if c.Kind == "jop" {
				res.Sample = map[string]interface{}{"case": c, "kind": "operand sweep of journal opcode", "opcode": fmt.Sprintf("%#x", c.P[0]), "executions": res.Evals}
			}
			return
		},
		Floors: func(tier string) map[string]int64 {
			return map[string]int64{"executions": 3000}
		},
	})
	Register(&Prop{
		ID:          "C20",
		Level:       "exploration",
		Hostile:     true,
		Serial:      false,
		Rule:        "work counters at the host boundary between two consecutive instruction callbacks (one instruction, or one precompile call): state reads counted by the StateDB proxy must stay within 16 + gas/20 (20 gas = cheapest state read on any fork) and bytes allocated (runtime TotalAlloc delta sampled after the recorder's own copies) within 64 KiB + 64*gas + 4*(memory size before the instruction); workloads: C03's hostile generators (journal operand sweeps with storage words encoding string lengths 2^12..2^64-1 and memory length words up to 2^256-1, Artela precompile payloads with length fields up to 2^256-1) plus single-instruction programs for every length-taking standard opcode with operands 2^10..2^64 and the whole standard gadget workload as the no-false-alarm control; the proxy aborts an instruction after 2^16 reads (the violation is then established); distinct_nontrivial = distinct (opcode, outcome, work class) observations",
		Assumptions: []string{"allocation is sampled in single-goroutine workers; the generous constants keep every standard instruction on every fork far inside the bounds (checked by the control workload)", "hashing/copying work is observed through allocation and state reads only"},
		Cases: func(seed uint64, tier string) []Case {
			cs := hostileCases(seed, tier, 0xC20)
			n := 150
			if !quick(tier) {
				n = 5000
			}
			for i := 0; i < n; i++ {
				cs = append(cs, Case{Kind: "control", Seed: h.Mix(seed, 0xC20C, uint64(i))})
			}
			cs = append(cs, Case{Kind: "lenops"})
			cs = append(cs, Case{Kind: "stdprecompiles"})
			for _, f := range []h.Fork{h.Frontier, h.Homestead, h.London, h.Shanghai, h.Cancun} {
				for _, sz := range []int64{4096, 49152, 300_000, 1_000_000} {
					if f >= h.Shanghai && sz > 49152 {
						continue // (init code is limited to 49152 bytes from Shanghai on)
					}
					cs = append(cs, Case{Kind: "jumpcode", P: []int64{int64(f), sz, 1500}})
				}
				cs = append(cs, Case{Kind: "callops", P: []int64{int64(f)}})
				for _, height := range []int64{100, 258, 1000, 70000} {
					cs = append(cs, Case{Kind: "blockhash", P: []int64{int64(f), height}})
				}
			}
			return cs
		},
		Run: runC20,
		Floors: func(tier string) map[string]int64 {
			return map[string]int64{"instructions_measured": 100000, "journal_instructions_measured": 1500, "precompile_calls_measured": 300}
		},
	})
}

func runC20(c Case, tier string) (res CaseResult) {
	measure := func(hr *hostileRun, cls string) {
		res.Evals++
		for i := range hr.fs.L.Events {
			e := &hr.fs.L.Events[i]
			if e.K != h.KStep || e.Err != "" {
				continue
			}
			res.Count("instructions_measured", 1)
			if h.IsJournalOp(e.Op) {
				res.Count("journal_instructions_measured", 1)
			}
			if isCallOp(e.Op) && len(e.Stack) >= 2 {
				if a := common.Address(e.Stack[len(e.Stack)-2].Bytes20()); a[19] >= 100 && a[19] <= 102 {
					res.Count("precompile_calls_measured", 1)
				}
			}
		}
		// host work done by a precompile whose fixed fee could not be paid
		var pcGas uint64
		inPC := false
		for i := range hr.fs.L.Events {
			e := &hr.fs.L.Events[i]
			switch e.K {
			case h.KEnter:
				inPC = e.To[19] >= 100 && e.To[19] <= 102 && e.To == common.BytesToAddress([]byte{e.To[19]})
				pcGas = e.Gas
			case h.KExit:
				inPC = false
			case h.KCtxGet, h.KCtxSet, h.KJITSender:
				if inPC && hr.fs.Rules.IsBerlin && pcGas < 5000 {
					res.Fail(Key("work-without-fee", fmt.Sprintf("call-0x%02x", 100+int(e.K-h.KCtxGet))), fmt.Sprintf("a precompile given %d gas (fixed fee 5000) still performed its host operation (%d payload bytes handed to the host)", pcGas, len(e.CtxKey)+len(e.Bytes)), hr.desc)
				}
			}
		}
		for _, v := range gasBounds(hr.fs.L) {
			res.Fail(Key("gas-created", cls), "gas appeared from nowhere (work that nobody paid for): "+v, hr.desc)
		}
		res.Max("reads_in_one_instruction", int64(hr.maxReads))
		for _, wf := range hr.workFindings {
			res.Fail(Key(wf[0], wf[1]), "an instruction did work that is not bounded by the gas it paid: "+wf[2], hr.desc)
		}
		for _, ir := range hr.irs {
			if ir.Panic != "" && ir.Panic != "READLIMIT" {
				res.Count("panics_seen_reported_by_C03", 1)
			}
		}
		res.Shape(cls, hr.maxReads > 16, len(hr.workFindings), shapeOf(hr.fs.L))
	}
	switch c.Kind {
	case "control":
		dc := genDual(c.Seed, h.Cancun, func(o *h.GenOpts) { o.Cancun = true; o.CallBias = 20 })
		hr := runHostile(dc.World, dc.Env, []h.TxSpec{dc.Tx}, dc.Desc, true, nil)
		measure(hr, "control")
		res.Count("control_runs", 1)
	case "stdprecompiles":
		// standard precompiles whose input carries length fields or work counters: the fee must follow them
		word := func(v uint64) []byte { b := make([]byte, 32); new(big.Int).SetUint64(v).FillBytes(b); return b }
		lens := []uint64{0, 1, 32, 1 << 10, 1 << 16, 1 << 20, 1 << 26}
		var inputs [][2]interface{}
		for _, bl := range lens {
			for _, el := range lens {
				for _, ml := range lens {
					in := append(append(append([]byte{}, word(bl)...), word(el)...), word(ml)...)
					in = append(in, 3, 5, 7)
					inputs = append(inputs, [2]interface{}{byte(5), in})
				}
			}
		}
		for _, rounds := range []uint32{0, 1, 1 << 10, 1 << 20} {
			in := make([]byte, 213)
			in[0], in[1], in[2], in[3] = byte(rounds>>24), byte(rounds>>16), byte(rounds>>8), byte(rounds)
			in[212] = 1
			inputs = append(inputs, [2]interface{}{byte(9), in})
		}
		for _, l := range []int{0, 1, 64, 1 << 12, 1 << 16} {
			for _, pc := range []byte{2, 3, 4} {
				inputs = append(inputs, [2]interface{}{pc, make([]byte, l)})
			}
		}
		for _, in := range inputs {
			pc, payload := in[0].(byte), in[1].([]byte)
			for _, f := range []h.Fork{h.Byzantium, h.Berlin} {
				if pc == 9 && f < h.Istanbul {
					continue
				}
				code := c14Last(h.CALL, common.BytesToAddress([]byte{pc}), 400000, f)
				hr := runHostile(h.BaseWorld([][]byte{code}), h.EnvSpec{Fork: f}, []h.TxSpec{{Entry: h.ECall, From: h.Sender, To: h.ContractAddr(0), Input: payload, Gas: 2_000_000}},
					fmt.Sprintf("CALL to precompile %d on %s with %d bytes of input, head %x", pc, f, len(payload), clipB(payload)), true, nil)
				measure(hr, fmt.Sprintf("std-precompile-%d", pc))
				res.Count("std_precompile_calls_measured", 1)
			}
		}
	case "jumpcode":
		// code full of jumps: a loop of K jumps in front of a long tail, run as hash-less init code (top-level create,
		// CREATE, CREATE2) and as deployed code; the one-off analysis of a frame's code is allowed, a per-jump cost is not
		fork := h.Fork(c.P[0])
		size := int(c.P[1])
		loops := uint64(c.P[2])
		// counter on the stack: PUSH loops; JUMPDEST; PUSH1 1; SWAP1; SUB; DUP1; PUSH1 dest; JUMPI; STOP
		body := h.NewAsm().PushU(loops)
		dest := uint64(len(body.Bytes()))
		body.Op(h.JUMPDEST).PushU(1).Op(h.SWAP1, h.SUB, h.DUP1).PushU(dest).Op(h.JUMPI, h.STOP)
		code := append(body.Bytes(), make([]byte, size-len(body.Bytes()))...)
		for i := len(body.Bytes()); i < len(code); i++ {
			code[i] = []byte{0x5b, 0x60, 0x00, 0x7f}[i%4] // JUMPDESTs, pushes: work for the analysis
		}
		for variant := 0; variant < 4; variant++ {
			var w *h.World
			var tx h.TxSpec
			switch variant {
			case 0: // top-level create
				w = h.BaseWorld(nil)
				tx = h.TxSpec{Entry: h.ECreate, From: h.Sender, Input: code, Gas: 20_000_000, Value: new(big.Int)}
			case 1, 2: // CREATE / CREATE2 from a contract that copies its calldata into memory
				a := h.NewAsm().Op(h.CALLDATASIZE).PushU(0).PushU(0).Op(h.CALLDATACOPY)
				if variant == 1 {
					a.Op(h.CALLDATASIZE).PushU(0).PushU(0).Op(h.CREATE, h.POP, h.STOP)
				} else {
					a.PushU(5).Op(h.CALLDATASIZE).PushU(0).PushU(0).Op(h.CREATE2, h.POP, h.STOP)
				}
				if variant == 2 && fork < h.Constantinople {
					continue
				}
				w = h.BaseWorld([][]byte{a.Bytes()})
				tx = h.TxSpec{Entry: h.ECall, From: h.Sender, To: h.ContractAddr(0), Input: code, Gas: 25_000_000, Value: new(big.Int)}
			case 3: // deployed code (carries a code hash)
				w = h.BaseWorld([][]byte{code})
				tx = h.TxSpec{Entry: h.ECall, From: h.Sender, To: h.ContractAddr(0), Gas: 20_000_000, Value: new(big.Int)}
			}
			hr := runHostile(w, h.EnvSpec{Fork: fork}, []h.TxSpec{tx}, fmt.Sprintf("jump loop x%d in %d bytes of code, variant %d (0 create tx, 1 CREATE, 2 CREATE2, 3 deployed) on %s", loops, size, variant, fork), true, nil)
			measure(hr, "jumpcode")
			res.Count("jump_loop_runs", 1)
		}
	case "blockhash":
		// BLOCKHASH served by the repository's own core.GetHashFn over a chain of counted headers
		fork := h.Fork(c.P[0])
		height := uint64(c.P[1])
		a := h.NewAsm()
		for _, k := range []uint64{0, 1, 2, 255, 256, 257, 258, 300, height / 2, height - 1, height, height + 1} {
			a.PushU(k).Op(h.BLOCKHASH, h.POP)
			a.PushU(k).Op(h.NUMBER, h.SUB, h.BLOCKHASH, h.POP)
		}
		a.Op(h.STOP)
		var chain *h.CountingChain
		hr := runHostileWith(h.BaseWorld([][]byte{a.Bytes()}), h.EnvSpec{Fork: fork, Number: height}, []h.TxSpec{{Entry: h.ECall, From: h.Sender, To: h.ContractAddr(0), Gas: 1_000_000, Value: new(big.Int)}},
			fmt.Sprintf("BLOCKHASH of old, recent, current and future blocks at height %d on %s (core.GetHashFn over counted headers)", height, fork), false, nil, // (the mock chain's own allocations are not the VM's)
			func(fs *h.ForkSession, hr *hostileRun) {
				chain = fs.UseChainHashes(height)
				hr.hostReads = func() uint64 { return chain.Reads }
			})
		measure(hr, "blockhash")
		res.Max("header_reads_in_one_instruction", int64(hr.maxHostReads))
		res.Count("blockhash_runs", 1)
	case "callops":
		// every call kind with gas and value operands at the boundaries (0, 1, 2^63, 2^64-1, 2^64, 2^255, 2^256-1 ...), to a
		// contract, a code-less account and a precompile: whatever the outcome, nobody is handed gas that was not paid for
		fork := h.Fork(c.P[0])
		callee := h.NewAsm().PushU(1).PushU(0).Op(h.MSTORE).PushU(32).PushU(0).Op(h.RETURN).Bytes()
		vals := []*uint256.Int{h.U(0), h.U(1), h.U(999), new(uint256.Int).Lsh(h.U(1), 63), h.U(^uint64(0)), h.U(^uint64(0) - 40), new(uint256.Int).Lsh(h.U(1), 64), new(uint256.Int).Lsh(h.U(1), 255), new(uint256.Int).Not(h.U(0))}
		for _, kind := range []byte{h.CALL, h.CALLCODE, h.DELEGATECALL, h.STATICCALL} {
			for _, tgt := range []common.Address{h.ContractAddr(1), h.EOARich, common.BytesToAddress([]byte{4})} {
				for _, g := range vals {
					for _, v := range vals {
						if kind != h.CALL && kind != h.CALLCODE && v != vals[0] {
							continue
						}
						a := h.NewAsm()
						for rep := 0; rep < 3; rep++ { // (three times: a gain would compound)
							a.PushU(32).PushU(0).PushU(0).PushU(0)
							if kind == h.CALL || kind == h.CALLCODE {
								a.Push(v)
							}
							a.PushAddr(tgt).Push(g).Op(kind, h.POP)
						}
						a.Op(h.STOP)
						hr := runHostile(h.BaseWorld([][]byte{a.Bytes(), callee}), h.EnvSpec{Fork: fork}, []h.TxSpec{{Entry: h.ECall, From: h.Sender, To: h.ContractAddr(0), Gas: 100000, Value: new(big.Int)}},
							fmt.Sprintf("call kind %#x x3 to %s gas operand %s value operand %s on %s", kind, tgt.Hex()[34:], g.Hex(), v.Hex(), fork), false, nil)
						measure(hr, "callops")
						if last := hr.irs[len(hr.irs)-1]; last.Panic == "" && last.Gas > 100000 {
							res.Fail(Key("gas-created", "callops-leftover"), fmt.Sprintf("a transaction given 100000 gas ended with %d", last.Gas), hr.desc)
						}
						res.Count("call_operand_runs", 1)
					}
				}
			}
		}
	case "lenops":
		// every standard opcode taking a length, with lengths 2^10 .. 2^64
		type lop struct {
			op   byte
			emit func(a *h.Asm, l *uint256.Int)
		}
		lops := []lop{
			{h.KECCAK256, func(a *h.Asm, l *uint256.Int) { a.Push(l).PushU(0).Op(h.KECCAK256, h.POP) }},
			{h.CALLDATACOPY, func(a *h.Asm, l *uint256.Int) { a.Push(l).PushU(0).PushU(0).Op(h.CALLDATACOPY) }},
			{h.CODECOPY, func(a *h.Asm, l *uint256.Int) { a.Push(l).PushU(0).PushU(0).Op(h.CODECOPY) }},
			{h.EXTCODECOPY, func(a *h.Asm, l *uint256.Int) {
				a.Push(l).PushU(0).PushU(0).PushAddr(h.ContractAddr(0)).Op(h.EXTCODECOPY)
			}},
			{h.RETURNDATACOPY, func(a *h.Asm, l *uint256.Int) { a.Push(l).PushU(0).PushU(0).Op(h.RETURNDATACOPY) }},
			{h.MCOPY, func(a *h.Asm, l *uint256.Int) { a.Push(l).PushU(0).PushU(0).Op(h.MCOPY) }},
			{h.LOG0, func(a *h.Asm, l *uint256.Int) { a.Push(l).PushU(0).Op(h.LOG0) }},
			{h.RETURN, func(a *h.Asm, l *uint256.Int) { a.Push(l).PushU(0).Op(h.RETURN) }},
			{h.REVERT, func(a *h.Asm, l *uint256.Int) { a.Push(l).PushU(0).Op(h.REVERT) }},
			{h.CREATE, func(a *h.Asm, l *uint256.Int) { a.Push(l).PushU(0).PushU(0).Op(h.CREATE, h.POP) }},
			{h.CREATE2, func(a *h.Asm, l *uint256.Int) { a.PushU(0).Push(l).PushU(0).PushU(0).Op(h.CREATE2, h.POP) }},
			{h.CALL, func(a *h.Asm, l *uint256.Int) {
				a.PushU(0).PushU(0).Push(l).PushU(0).PushU(0).PushAddr(common.BytesToAddress([]byte{4})).PushU(100000).Op(h.CALL, h.POP)
			}},
			{h.MLOAD, func(a *h.Asm, l *uint256.Int) { a.Push(l).Op(h.MLOAD, h.POP) }},
			{h.EXP, func(a *h.Asm, l *uint256.Int) { a.Push(l).PushU(3).Op(h.EXP, h.POP) }},
		}
		for _, lo := range lops {
			for _, sh := range []uint{10, 16, 20, 24, 32, 40, 63, 64} {
				l := new(uint256.Int).Lsh(h.U(1), sh)
				a := h.NewAsm()
				lo.emit(a, l)
				a.Op(h.STOP)
				for _, f := range []h.Fork{h.Frontier, h.Byzantium, h.Constantinople, h.Berlin, h.Shanghai, h.Cancun} {
					hr := runHostile(h.BaseWorld([][]byte{a.Bytes()}), h.EnvSpec{Fork: f}, []h.TxSpec{{Entry: h.ECall, From: h.Sender, To: h.ContractAddr(0), Gas: 25_000_000, Input: []byte{1, 2, 3}}},
						fmt.Sprintf("opcode %#x with length 2^%d on %s", lo.op, sh, f), true, nil)
					measure(hr, fmt.Sprintf("lenop%02x", lo.op))
					// the fee must follow the length the instruction works on: the per-word / per-byte data fee of the yellow
					// paper and the EIPs is a lower bound on what an executed instruction was charged
					perWord := map[byte]uint64{h.KECCAK256: 6, h.CALLDATACOPY: 3, h.CODECOPY: 3, h.EXTCODECOPY: 3, h.RETURNDATACOPY: 3, h.MCOPY: 3, h.CREATE2: 6}[lo.op]
					perByte := map[byte]uint64{h.LOG0: 8}[lo.op]
					if f >= h.Shanghai && (lo.op == h.CREATE || lo.op == h.CREATE2) {
						perWord += 2 // (EIP-3860 init-code word fee)
					}
					for i := range hr.fs.L.Events {
						e := &hr.fs.L.Events[i]
						if e.K != h.KStep || e.Op != lo.op || e.Err != "" || e.Depth != 1 || !l.IsUint64() {
							continue
						}
						faulted := false
						for j := i + 1; j < len(hr.fs.L.Events); j++ {
							n := &hr.fs.L.Events[j]
							if n.K == h.KFault {
								faulted = n.PC == e.PC && n.Depth == e.Depth
							}
							if n.K == h.KFault || n.K == h.KStep || n.K == h.KEnter || n.K == h.KExit || n.K == h.KEnd {
								break
							}
						}
						if faulted {
							continue // (refused: nothing was worked on)
						}
						words := (l.Uint64() + 31) / 32
						// (all these programs work at offset 0: the instruction also pays for growing memory from what it was to `words`)
						memGas := func(w uint64) uint64 { return 3*w + w*w/512 }
						var expansion uint64
						if old := uint64(e.MemLen+31) / 32; words > old {
							expansion = memGas(words) - memGas(old)
						}
						base, known := map[byte]uint64{h.KECCAK256: 30, h.CALLDATACOPY: 3, h.CODECOPY: 3, h.RETURNDATACOPY: 3, h.MCOPY: 3, h.CREATE2: 32000, h.CREATE: 32000, h.LOG0: 375}[lo.op]
						if !known {
							continue // (instructions whose operand is not the length of a memory range it pays for by the word)
						}
						if min := base + perWord*words + perByte*l.Uint64() + expansion; e.Cost < min {
							res.Fail(Key("fee-below-data-fee", fmt.Sprintf("op%02x", lo.op)), fmt.Sprintf("instruction %#x working on %d bytes was charged %d gas, less than base %d + data fee (%d per word, %d per byte) + memory growth %d = %d", lo.op, l.Uint64(), e.Cost, base, perWord, perByte, expansion, min), hr.desc)
						}
						res.Count("data_fees_checked", 1)
					}
				}
			}
		}
	default:
		for _, hc := range genHostile(c, tier) {
			hr := runHostile(hc.w, hc.env, hc.txs, hc.desc, true, hc.plan)
			measure(hr, hc.cls)
		}
	}
	return
}
