package props

import (
	"bytes"
	"fmt"
	"sort"
	"strings"

	h "verif/harness"
	"verif/models/abibytes"
	"verif/models/keyreg"

	avm "github.com/artela-network/artela-evm/vm"
	"github.com/ethereum/go-ethereum/common"
	"github.com/ethereum/go-ethereum/crypto"
	"github.com/holiman/uint256"
)

// C16 — equal executions produce byte-identical results and tracer views; instances are isolated.

// serializeRun renders everything a replica or an Aspect can observe about a finished execution,
// list-valued query results IN THE ORDER RETURNED.
func serializeRun(fs *h.ForkSession, irs []h.InvokeResult) string {
	var b strings.Builder
	for _, ir := range irs {
		fmt.Fprintf(&b, "ret=%x gas=%d err=%q panic=%q addr=%s\n", ir.Ret, ir.Gas, ir.ErrClass, firstLine(ir.Panic), ir.Addr.Hex())
	}
	for _, l := range fs.DB.Logs() {
		fmt.Fprintf(&b, "log %s %v %x\n", l.Address.Hex(), l.Topics, l.Data)
	}
	fmt.Fprintf(&b, "refund=%d root=%s\n", fs.DB.GetRefund(), fs.DB.IntermediateRoot(fs.Rules.IsEIP158).Hex())
	for i := range fs.L.Events {
		if e := &fs.L.Events[i]; e.K == h.KCtxSet || e.K == h.KCtxGet || e.K == h.KJITSender {
			fmt.Fprintf(&b, "host %s addr=%s key=%x value=%x hash=%x\n", e.K, e.Addr.Hex(), e.CtxKey, e.Bytes, e.Key)
		}
	}
	serializeQueries(fs, &b)
	return b.String()
}

// serializeQueries renders the answer of every read-only query a consumer of the tracer can make (call-tree lookups
// and lists, every registered key by name path, its list-valued queries). It only reads: asking in the middle of an
// execution must not change any later answer.
func serializeQueries(fs *h.ForkSession, b *strings.Builder) {
	tr := fs.EVM.Tracer()
	ct := tr.CallTree()
	for i := uint64(0); ; i++ {
		c := ct.FindCall(i)
		if c == nil {
			break
		}
		to := "create"
		if c.To != nil {
			to = c.To.Hex()
		}
		fmt.Fprintf(b, "call %d parent=%d %s->%s value=%v gas=%v data=%x ret=%x left=%d err=%q children=%v\n", i, c.ParentIndex(), c.From.Hex(), to, c.Value, c.Gas, c.Data, c.Ret, c.RemainingGas, h.ErrClass(c.Err), c.ChildrenIndices())
		var kids []uint64
		for _, k := range ct.ChildrenOf(i) {
			kids = append(kids, k.Index)
		}
		fmt.Fprintf(b, "  childrenOf=%v\n", kids)
	}
	// journal queries: walk every registered key path (paths enumerated from the sorted dump)
	d := tr.VerifDump()
	sc := tr.StateChanges()
	var accts []common.Address
	for a := range d.Roots {
		accts = append(accts, a)
	}
	sort.Slice(accts, func(i, j int) bool { return bytes.Compare(accts[i][:], accts[j][:]) < 0 })
	for _, a := range accts {
		fmt.Fprintf(b, "account %s balance=%s\n", a.Hex(), canonRealBal(sc.Balance(a)))
		var walk func(id int, path []string)
		walk = func(id int, path []string) {
			n := d.Nodes[id]
			for _, ref := range n.ByName {
				p := append(append([]string{}, path...), string(ref.Name))
				var idx [][]byte
				for _, el := range p[1:] {
					idx = append(idx, []byte(el))
				}
				key := sc.FindKeyIndices(a, p[0], idx...)
				if key == nil {
					fmt.Fprintf(b, " key %q unreachable by name\n", p)
					continue
				}
				fmt.Fprintf(b, " key %q slot=%v off=%d type=%d changes=%s\n", p, key.Slot(), key.Offset(), key.NodeType(), canonReal(key.Changes()))
				// ordered list results
				fmt.Fprintf(b, "  ChildrenIndices=%q\n", key.ChildrenIndices())
				var ch []string
				for _, c := range key.Children() {
					ch = append(ch, fmt.Sprintf("%v/%d", c.Slot(), c.Offset()))
				}
				fmt.Fprintf(b, "  Children=%v\n", ch)
				fmt.Fprintf(b, "  IndicesOfChanges=%q\n", sc.IndicesOfChanges(a, p[0], idx...))
				// the by-slot query at this key's location under a type id registered for no key: whatever it
				// answers, it must answer the same in every repetition
				oc, oerr := sc.Slot(a, key.Slot(), uint256.NewInt(uint64(key.Offset())), common.Hash(h.TypeID(9).Bytes32()))
				fmt.Fprintf(b, "  SlotUnderOtherType=%s refused=%v\n", canonReal(oc), oerr != nil)
				walk(ref.ID, p)
			}
		}
		walk(d.Roots[a], nil)
	}
}

func dumpString(fs *h.ForkSession) string {
	d := fs.EVM.Tracer().VerifDump()
	var b strings.Builder
	fmt.Fprintf(&b, "count=%d current=%d root=%d\n", d.Count, d.Current, d.Root)
	for _, c := range d.Calls {
		fmt.Fprintf(&b, "call %d idx=%d parent=%d kids=%v\n", c.Key, c.Index, c.Parent, c.Children)
	}
	for i, n := range d.Nodes {
		fmt.Fprintf(&b, "node %d slot=%x off=%d type=%x nt=%d data=%x changes=%s names=", i, n.Slot, n.Offset, n.TypeId[:2], n.NodeType, n.Data, keyreg.Canon(n.Changes))
		for _, r := range n.ByName {
			fmt.Fprintf(&b, "%q:%d,", r.Name, r.ID)
		}
		b.WriteString("\n")
	}
	for _, e := range d.Index {
		fmt.Fprintf(&b, "index %s %x %d %x -> %d\n", e.Account.Hex(), e.Slot, e.Offset, e.TypeId[:2], e.ID)
	}
	for _, e := range d.Raw {
		fmt.Fprintf(&b, "raw %s %x %d %x\n", e.Account.Hex(), e.Slot, e.CallIdx, e.Val)
	}
	return b.String()
}

// manyChildrenProgram registers `n` top-level variables and `n` elements under one mapping and one array,
// journals a few of them: every list-valued query then has n elements.
func manyChildrenProgram(r *h.RNG, n int) []byte {
	a := h.NewAsm()
	for i := 0; i < n; i++ {
		name := fmt.Sprintf("var%c%d", 'a'+r.Intn(26), i)
		a.MstoreName(memJ, []byte(name))
		a.Journal(h.VSVJNAL, h.U(memJ), h.U(uint64(40+i)), h.U(0), jTypU)
		if r.Bool() {
			a.PushU(uint64(1 + r.Intn(5))).PushU(uint64(40 + i)).Op(h.SSTORE)
			a.Journal(h.VVJNAL, h.U(uint64(40+i)), h.U(0), h.U(32), jTypU)
		}
	}
	a.MstoreName(memJ, []byte("m"))
	a.Journal(h.RSVJNAL, h.U(memJ), h.U(23), jTypMap)
	for i := 0; i < n; i++ {
		key := uint64(100 + r.Intn(1000)*7 + i)
		es := jMapSlot(key, 23)
		a.Journal(h.IVVVJNAL, h.U(23), es, h.U(key), h.U(0), jTypU, jTypMap)
		if r.Bool() {
			a.PushU(uint64(1 + r.Intn(5))).Push(es).Op(h.SSTORE)
			a.Journal(h.VVJNAL, es, h.U(0), h.U(32), jTypU)
		}
	}
	// members packed into ONE slot at different offsets: two top-level variables, and two members of a struct element
	// of the mapping (children of one parent that share a slot)
	a.MstoreName(memJ, []byte("pk_lo")).Journal(h.VSVJNAL, h.U(memJ), h.U(39), h.U(0), jTypP)
	a.MstoreName(memJ, []byte("pk_hi")).Journal(h.VSVJNAL, h.U(memJ), h.U(39), h.U(16), jTypP)
	{
		es := jMapSlot(77, 23)
		a.Journal(h.IVVVJNAL, h.U(23), es, h.U(77), h.U(0), jTypP, jTypMap)
		a.Journal(h.IVVVJNAL, h.U(23), es, h.U(78), h.U(16), jTypP, jTypMap)
		a.Push(new(uint256.Int).Lsh(h.U(uint64(1+r.Intn(5))), 128)).Push(es).Op(h.SSTORE)
		a.Journal(h.VVJNAL, es, h.U(16), h.U(16), jTypP)
	}
	a.MstoreName(memJ, []byte("arr"))
	a.Journal(h.RSVJNAL, h.U(memJ), h.U(24), jTypArr)
	for i := 0; i < n; i++ {
		a.MstoreName(memJ+0x40, []byte(fmt.Sprintf("k-%d-%d", i, r.Intn(99))))
		a.Journal(h.IRVVJNAL, h.U(24), jMapSlot(uint64(500+i), 24), h.U(memJ+0x40), h.U(0), jTypU, jTypArr)
	}
	// a short and a long string (exercise the shared 256-bit constants)
	a.MstoreName(memJ, []byte("s"))
	a.Journal(h.RSVJNAL, h.U(memJ), h.U(22), jTypStr)
	w := new(uint256.Int).SetBytes(append(r.Bytes(5), make([]byte, 27)...))
	w.Or(w, h.U(10))
	a.Push32(w).PushU(22).Op(h.SSTORE)
	a.Journal(h.VRJNAL, h.U(22), jTypStr)
	// several keys of different types at ONE location, as Solidity lays out a struct (the struct variable and its
	// first member both start at the struct's slot, offset 0) and a static array (the array and element 0): journaled
	// under each registered type, and finally - in half of the programs, as the frame's last instruction, because it is
	// refused - under a type id registered for none of them
	jTypStruct := h.TypeID(6)
	a.MstoreName(memJ, []byte("st")).Journal(h.RSVJNAL, h.U(memJ), h.U(30), jTypStruct)
	a.Journal(h.IVVVJNAL, h.U(30), h.U(30), h.U(0), h.U(0), jTypU, jTypStruct)
	a.Journal(h.IVVVJNAL, h.U(30), h.U(30), h.U(1), h.U(0), jTypP, jTypStruct)
	a.PushU(uint64(1 + r.Intn(200))).PushU(30).Op(h.SSTORE)
	a.Journal(h.VVJNAL, h.U(30), h.U(0), h.U(32), jTypU)
	a.Journal(h.VVJNAL, h.U(30), h.U(0), h.U(16), jTypP)
	a.PushU(uint64(r.Intn(7))).PushU(0).Op(h.MSTORE)
	if r.Bool() {
		a.Journal(h.VVJNAL, h.U(30), h.U(0), h.U(32), h.TypeID(7))
	}
	a.PushU(32).PushU(0).Op(h.RETURN)
	return a.Bytes()
}

type c16Tx struct {
	world *h.World
	env   h.EnvSpec
	txs   []h.TxSpec
	plan  *h.AspectPlan
	jp    bool
	desc  string
	// host objects shared with other instances, and the gas-less call configuration (C17)
	shared    *h.SharedHost
	noBaseFee bool
}

func (t *c16Tx) run(hook func(fs *h.ForkSession)) (*h.ForkSession, []h.InvokeResult) {
	fs := h.NewForkSession(t.world, t.env, h.ForkOpts{Debug: hook != nil, RecSteps: false, JoinPoints: t.jp, Plan: t.plan, Shared: t.shared, NoBaseFee: t.noBaseFee})
	if hook != nil {
		hook(fs)
	}
	var irs []h.InvokeResult
	for _, tx := range t.txs {
		irs = append(irs, fs.Invoke(tx))
	}
	return fs, irs
}

func c16Gen(seed uint64, kind string) *c16Tx {
	r := h.NewRNG(seed)
	switch kind {
	case "children":
		n := 5 + r.Intn(4)
		code := manyChildrenProgram(r, n)
		return &c16Tx{world: h.BaseWorld([][]byte{code}), env: h.EnvSpec{Fork: h.Pick(r, []h.Fork{h.Byzantium, h.Berlin, h.Shanghai, h.Cancun})},
			txs: []h.TxSpec{{Entry: h.ECall, From: h.Sender, To: h.ContractAddr(0), Gas: 8_000_000}}, desc: fmt.Sprintf("many-children program n=%d", n)}
	case "tree":
		sc, rr := journalScenario(seed, c10Kinds, h.Byzantium, h.Cancun)
		t := &c16Tx{world: sc.World, env: h.EnvSpec{Fork: sc.Fork}, txs: []h.TxSpec{sc.Tx}, desc: sc.desc()}
		if rr.Chance(50) {
			t.plan, t.jp = bindPlan(rr, sc, 40, []uint32{0, 10}, 0), true
		}
		return t
	case "hygiene":
		// frames whose outcome would depend on anything left behind in a reused operand stack or memory buffer:
		// callees that underflow, fill the stack to exactly 1024, read memory they never wrote - run before and
		// after a callee that leaves a deep stack and a large, fully written memory behind
		f := h.Pick(r, []h.Fork{h.Frontier, h.Byzantium, h.Berlin, h.Shanghai, h.Cancun})
		under := h.NewAsm().Op(byte(h.DUP1+r.Intn(16))).PushU(0).Op(h.SSTORE, h.STOP).Bytes()
		full := h.NewAsm()
		for i := 0; i < 1024; i++ {
			full.Op(h.PUSH1, byte(i))
		}
		full.PushU(0).Op(h.MLOAD) // the 1025th word: stack limit
		fresh := h.NewAsm().PushU(uint64(32*r.Intn(60))).Op(h.MLOAD).PushU(1).Op(h.SSTORE, h.MSIZE).PushU(2).Op(h.SSTORE).PushU(32).PushU(uint64(64 + 32*r.Intn(8))).Op(h.RETURN).Bytes()
		deep := h.NewAsm()
		for i := 0; i < 20+r.Intn(30); i++ {
			deep.Push(r.U256())
		}
		for i := 0; i < 70; i++ {
			deep.Push(r.U256()).PushU(uint64(32 * i)).Op(h.MSTORE)
		}
		if r.Bool() {
			deep.PushU(64).PushU(uint64(32 * r.Intn(60))).Op(h.REVERT)
		} else {
			deep.PushU(64).PushU(uint64(32 * r.Intn(60))).Op(h.RETURN)
		}
		top := h.NewAsm()
		slot := uint64(10)
		call := func(i int) {
			top.PushU(32).PushU(0x40).PushU(0).PushU(0).PushU(0).PushAddr(h.ContractAddr(i)).PushU(300000).Op(h.CALL).PushU(slot).Op(h.SSTORE)
			top.PushU(0x40).Op(h.MLOAD).PushU(slot + 1).Op(h.SSTORE)
			slot += 2
		}
		for _, i := range []int{1, 2, 3, 4, 1, 3, 2, 4, 3, 1} {
			call(i)
		}
		top.Op(h.STOP)
		tx := h.TxSpec{Entry: h.ECall, From: h.Sender, To: h.ContractAddr(0), Gas: 8_000_000}
		return &c16Tx{world: h.BaseWorld([][]byte{top.Bytes(), under, full.Bytes(), fresh, deep.Bytes()}), env: h.EnvSpec{Fork: f}, txs: []h.TxSpec{tx, tx}, desc: fmt.Sprintf("stack/memory hygiene program on %s", f)}
	default: // "gen": a standard program, possibly with extra EIPs, two transactions
		dc := genDual(seed, h.Cancun, func(o *h.GenOpts) { o.Cancun = true; o.Push0 = true })
		tx2 := dc.Tx
		tx2.Entry, tx2.From, tx2.To = h.ECall, h.Sender, h.ContractAddr(0)
		return &c16Tx{world: dc.World, env: dc.Env, txs: []h.TxSpec{dc.Tx, tx2}, desc: dc.Desc}
	}
}

func firstDiff(a, b string) string {
	la, lb := strings.Split(a, "\n"), strings.Split(b, "\n")
	for i := 0; i < len(la) && i < len(lb); i++ {
		if la[i] != lb[i] {
			return fmt.Sprintf("line %d:\n  %s\nvs\n  %s", i, clip(la[i], 500), clip(lb[i], 500))
		}
	}
	return fmt.Sprintf("length %d vs %d lines", len(la), len(lb))
}

func diffRule(d string) string {
	for _, k := range []string{"ChildrenIndices", "Children=", "IndicesOfChanges", "childrenOf", "changes=", "balance=", "ret=", "root=", "call "} {
		if strings.Contains(d, k) {
			return strings.Trim(k, "= ")
		}
	}
	return "other"
}

func init() {
	Register(&Prop{
		ID:    "C16",
		Level: "exploration",
		Rule: "kind rep: the same transaction (journal-heavy programs registering 5-8 children per node under the root, a mapping and an array, with a struct whose first members share its slot so that several keys of different types sit at one location, journaled under each registered type and under an unregistered one; journal call trees with and without real Aspects; standard programs with extra EIPs, two transactions; hygiene programs whose callees underflow, fill the stack to 1024 words or read memory they never wrote, before and after a callee that leaves a deep stack and a large written memory behind) is executed K times on equal pre-state in fresh EVMs inside one process (Go re-randomises map iteration per range statement, so K repetitions sample orders); the canonical serialisation - return data, gas, error, state root, logs, full call tree, balance journals and EVERY list-valued query (Children, ChildrenIndices, IndicesOfChanges, ChildrenOf, call-tree children) in the order returned, plus the by-slot query at every key's location under an unregistered type id - and the complete hook dump must be byte-identical; " +
			"kind xproc: the same transactions re-run in another worker process, serialisations compared across processes; kind iso: execution A alone vs A with an unrelated execution B (other program, other EVM, other state, possibly other extra EIPs on the same fork) run to completion in the middle of A (inside A's step callback) and between A's transactions: A's serialisation and dump must not change, nor B's; the shared 256-bit constants are compared with their initial values after every case (canary); distinct_nontrivial = distinct serialisations",
		Assumptions: []string{"K = 30 (quick) / 200 (thorough) repetitions sample map iteration orders; with 5 children the chance that a map-order dependence shows no second order in 30 runs is below 1e-9"},
		Cases: func(seed uint64, tier string) []Case {
			n := 40
			if !quick(tier) {
				n = 150
			}
			var cs []Case
			for i := 0; i < n; i++ {
				for _, k := range []string{"children", "tree", "gen", "hygiene"} {
					cs = append(cs, Case{Kind: "rep", S: k, Seed: h.Mix(seed, 0xC16, uint64(i))})
				}
				cs = append(cs, Case{Kind: "iso", Seed: h.Mix(seed, 0xC16A, uint64(i))})
			}
			// the same transactions once more at the far end of the case list: they land in another worker
			// PROCESS, and the serialisations of the two processes must agree (checked across cases)
			for i := 0; i < n; i++ {
				for _, k := range []string{"children", "tree"} {
					cs = append(cs, Case{Kind: "xproc", S: k, Seed: h.Mix(seed, 0xC16, uint64(i))})
				}
			}
			return cs
		},
		Run: runC16,
		Finish: func(agg *Agg, tier string) []Finding {
			var out []Finding
			pairs := int64(0)
			for name, vals := range agg.Sets {
				if !strings.HasPrefix(name, "_ser_") {
					continue
				}
				pairs++
				if len(vals) > 1 {
					out = append(out, Finding{Key: Key("nondeterministic-across-processes", strings.Split(name, "_")[2]), Msg: fmt.Sprintf("the same transaction serialises differently in two worker processes (%s: %d distinct serialisations)", name, len(vals))})
				}
			}
			agg.Obs["cross_process_comparisons"] = pairs
			return out
		},
		Floors: func(tier string) map[string]int64 {
			return map[string]int64{"repetitions": 2500, "list_results_with_5plus": 40, "isolation_pairs": 30, "interleavings_mid_execution": 10}
		},
	})
}

var c16Consts = avm.VerifConstants()

func checkCanary(res *CaseResult, where string) {
	now := avm.VerifConstants()
	for k, v := range c16Consts {
		if now[k] != v {
			res.Fail(Key("constant-mutated", k), fmt.Sprintf("shared package-level constant %s changed from %v to %v", k, v, now[k]), where)
		}
	}
}

func runC16(c Case, tier string) (res CaseResult) {
	K := 30
	if !quick(tier) {
		K = 200
	}
	switch c.Kind {
	case "rep":
		t := c16Gen(c.Seed, c.S)
		fs0, irs0 := t.run(nil)
		base := serializeRun(fs0, irs0)
		baseDump := dumpString(fs0)
		if strings.Count(base, "ChildrenIndices=[") > 0 {
			for _, line := range strings.Split(base, "\n") {
				if strings.Contains(line, "ChildrenIndices=") && strings.Count(line, "\" \"") >= 4 {
					res.Count("list_results_with_5plus", 1)
				}
			}
		}
		for k := 1; k < K; k++ {
			var hook func(fs *h.ForkSession)
			if k%2 == 1 {
				// a read-only observer asks every query every few instructions while the transaction runs
				every := 17 + k%29
				if c.S == "children" {
					every = 2 + k%7 // (registrations are a handful of instructions apart)
				}
				hook = func(fs *h.ForkSession) {
					n := 0
					fs.Rec.OnStep = func(e *h.Event, scope *avm.ScopeContext) {
						if n++; n%every == 0 {
							var sink strings.Builder
							serializeQueries(fs, &sink)
							res.Count("mid_run_observations", 1)
						}
					}
				}
			}
			fs, irs := t.run(hook)
			res.Count("repetitions", 1)
			if s := serializeRun(fs, irs); s != base {
				d := firstDiff(base, s)
				res.Fail(Key("nondeterministic", diffRule(d), c.S), fmt.Sprintf("repetition %d of the same transaction on equal pre-state gives a different answer", k), t.desc, d)
				break
			}
			if s := dumpString(fs); s != baseDump {
				res.Fail(Key("nondeterministic-dump", c.S), fmt.Sprintf("repetition %d leaves a different tracer content", k), t.desc, firstDiff(baseDump, s))
				break
			}
		}
		res.Evals = int64(K)
		res.Shape(base)
		if c.S != "gen" && c.S != "hygiene" {
			res.Set(fmt.Sprintf("_ser_%s_%x", c.S, c.Seed), fmt.Sprintf("%x", crypto.Keccak256([]byte(base + baseDump))[:12]))
		}
		checkCanary(&res, t.desc)
		if c.Seed%31 == 0 && c.S == "children" {
			res.Sample = map[string]interface{}{"case": c, "desc": t.desc, "serialisation_excerpt": strings.Split(clip(base, 1500), "\n")}
		}
	case "xproc":
		t := c16Gen(c.Seed, c.S)
		fs0, irs0 := t.run(nil)
		res.Set(fmt.Sprintf("_ser_%s_%x", c.S, c.Seed), fmt.Sprintf("%x", crypto.Keccak256([]byte(serializeRun(fs0, irs0) + dumpString(fs0)))[:12]))
		res.Count("cross_process_reruns", 1)
		res.Evals = 1
	case "iso":
		r := h.NewRNG(c.Seed)
		a := c16Gen(h.Mix(c.Seed, 1), h.Pick(r, []string{"children", "tree", "gen", "hygiene"}))
		b := c16Gen(h.Mix(c.Seed, 2), h.Pick(r, []string{"children", "tree", "gen", "hygiene"}))
		if c.Seed%5 == 0 {
			// A reaches the context-write precompile by a call kind that carries no caller identity,
			// B (another EVM) by an ordinary CALL: whatever B leaves behind must not change A's outcome
			payload := abibytes.Encode([]byte("k"), []byte("v"))
			kind := h.Pick(r, []byte{h.STATICCALL, h.DELEGATECALL, h.CALLCODE})
			a = &c16Tx{world: h.BaseWorld([][]byte{c14Last(kind, addrCtxWrite, 100000, h.Shanghai)}), env: h.EnvSpec{Fork: h.Shanghai},
				txs: []h.TxSpec{{Entry: h.ECall, From: h.Sender, To: h.ContractAddr(0), Input: payload, Gas: 3_000_000}}, desc: kindName(kind) + " to the context-write precompile"}
			b = &c16Tx{world: h.BaseWorld([][]byte{c14Last(h.CALL, addrCtxWrite, 100000, h.Shanghai)}), env: h.EnvSpec{Fork: h.Shanghai},
				txs: []h.TxSpec{{Entry: h.ECall, From: h.Sender, To: h.ContractAddr(0), Input: payload, Gas: 3_000_000}}, desc: "CALL to the context-write precompile"}
		}
		var sharedHost *h.SharedHost
		if c.Seed%5 == 2 {
			// A reads every field of the block context; B is built on the SAME host objects (block context with its big.Int
			// pointers, chain configuration) the way a node serves a gas-less call against the same block
			f := h.Pick(r, []h.Fork{h.London, h.Shanghai, h.Cancun})
			pa := h.NewAsm()
			for i := 0; i < 45; i++ {
				pa.PushU(uint64(i)).Op(h.POP)
			}
			for i, op := range []byte{h.BASEFEE, h.NUMBER, h.DIFFICULTY, h.COINBASE, h.GASLIMIT, h.TIMESTAMP, h.CHAINID, h.GASPRICE} {
				pa.Op(op).PushU(uint64(60 + i)).Op(h.SSTORE)
			}
			pa.Op(h.BASEFEE).PushU(0).Op(h.MSTORE).PushU(32).PushU(0).Op(h.RETURN)
			sharedHost = h.NewSharedHost(f)
			a = &c16Tx{world: h.BaseWorld([][]byte{pa.Bytes()}), env: h.EnvSpec{Fork: f}, txs: []h.TxSpec{{Entry: h.ECall, From: h.Sender, To: h.ContractAddr(0), Gas: 3_000_000}, {Entry: h.ECall, From: h.Sender, To: h.ContractAddr(0), Gas: 3_000_000}},
				desc: fmt.Sprintf("reads of every block-context field on %s (host objects shared with B)", f), shared: sharedHost}
			b.env = h.EnvSpec{Fork: f}
			b.shared, b.noBaseFee = sharedHost, true
			b.desc += " (gas-less call on the shared host objects)"
		} else if c.Seed%5 == 1 {
			// A probes every precompile address (standard and Artela) after a preamble, on fork fa; B is built and run
			// on a fork whose precompile set differs, in the middle of A's preamble
			pairs := [][2]h.Fork{{h.Istanbul, h.Shanghai}, {h.Shanghai, h.Istanbul}, {h.Homestead, h.Byzantium}, {h.Byzantium, h.Homestead}, {h.Berlin, h.Petersburg}, {h.Cancun, h.Frontier}, {h.Petersburg, h.Cancun}}
			pr := pairs[int(c.Seed>>4)%len(pairs)]
			pa := h.NewAsm()
			for i := 0; i < 45; i++ {
				pa.PushU(uint64(i)).Op(h.POP)
			}
			pa.PushU(1).PushU(0).Op(h.MSTORE).PushU(2).PushU(32).Op(h.MSTORE)
			for i, b := range []byte{1, 2, 3, 4, 5, 6, 7, 8, 9, 0x0a, 0x64, 0x65, 0x66} {
				pa.PushU(32).PushU(0x100).PushU(64).PushU(0).PushU(0).PushAddr(common.BytesToAddress([]byte{b})).PushU(200000).Op(h.CALL).PushU(uint64(50 + 2*i)).Op(h.SSTORE)
				pa.PushU(0x100).Op(h.MLOAD).PushU(uint64(51 + 2*i)).Op(h.SSTORE)
				pa.Op(h.GAS).PushU(uint64(200 + i)).Op(h.SSTORE)
			}
			pa.Op(h.STOP)
			a = &c16Tx{world: h.BaseWorld([][]byte{pa.Bytes()}), env: h.EnvSpec{Fork: pr[0]}, txs: []h.TxSpec{{Entry: h.ECall, From: h.Sender, To: h.ContractAddr(0), Gas: 6_000_000}}, desc: fmt.Sprintf("probe of every precompile address on %s", pr[0])}
			b.env.Fork = pr[1]
			b.env.ExtraEips = nil
			b.desc += fmt.Sprintf(" (moved to %s)", pr[1])
		} else if r.Chance(50) {
			// same fork, B with extra EIPs that change opcodes A may contain
			b.env.Fork = a.env.Fork
			b.env.ExtraEips = h.Pick(r, [][]int{{3855}, {3855, 1153}, {2200, 1884}, {3860, 3855}, {5656}})
		}
		fa, ia := a.run(nil)
		aloneA, dumpA := serializeRun(fa, ia), dumpString(fa)
		fb, ib := b.run(nil)
		aloneB, dumpB := serializeRun(fb, ib), dumpString(fb)
		// A again with B executed in the middle of it
		steps := 0
		var midB, midDumpB string
		at := 1 + r.Intn(40)
		ranB := false
		fa2, ia2 := a.run(func(fs *h.ForkSession) {
			fs.Rec.OnStep = func(e *h.Event, scope *avm.ScopeContext) {
				steps++
				if steps == at {
					fbb, ibb := b.run(nil)
					midB, midDumpB = serializeRun(fbb, ibb), dumpString(fbb)
					ranB = true
				}
			}
		})
		if !ranB {
			fbb, ibb := b.run(nil)
			midB, midDumpB = serializeRun(fbb, ibb), dumpString(fbb)
		} else {
			res.Count("interleavings_mid_execution", 1)
		}
		res.Count("isolation_pairs", 1)
		desc := "A: " + a.desc + " | B: " + b.desc
		if s := serializeRun(fa2, ia2); s != aloneA {
			d := firstDiff(aloneA, s)
			res.Fail(Key("interference", diffRule(d)), "execution A gives a different answer when an unrelated execution B runs in the same process in the middle of it", desc, d)
		}
		if s := dumpString(fa2); s != dumpA {
			res.Fail(Key("interference-dump", "A"), "A's tracer content differs when B ran in between (something recorded by one EVM is visible through another)", desc, firstDiff(dumpA, s))
		}
		if midB != aloneB {
			d := firstDiff(aloneB, midB)
			res.Fail(Key("interference", diffRule(d)), "execution B gives a different answer when run in the middle of A", desc, d)
		}
		if midDumpB != dumpB {
			res.Fail(Key("interference-dump", "B"), "B's tracer content differs when run in the middle of A", desc, firstDiff(dumpB, midDumpB))
		}
		// and A once more afterwards (state left behind by B in package-level data)
		fa3, ia3 := a.run(nil)
		if s := serializeRun(fa3, ia3); s != aloneA {
			d := firstDiff(aloneA, s)
			res.Fail(Key("interference-after", diffRule(d)), "execution A gives a different answer after an unrelated execution B ran in the same process", desc, d)
		}
		if sharedHost != nil {
			if d := sharedHost.Changed(); d != "" {
				res.Fail(Key("shared-host-object-modified"), "the block context / chain configuration shared between two instances was modified by an EVM", desc, d)
			}
			res.Count("pairs_sharing_host_objects", 1)
		}
		res.Evals = 5
		res.Shape(aloneA)
		res.Shape(aloneB)
		checkCanary(&res, desc)
	}
	return
}
