package props

import (
	"bytes"
	"fmt"
	"math/big"
	"reflect"
	"sort"
	"strings"

	h "verif/harness"
	"verif/models/keyreg"

	avm "github.com/artela-network/artela-evm/vm"
	"github.com/ethereum/go-ethereum/common"
	"github.com/holiman/uint256"
)

// C11 — key tree vs flat index: histories driven against the exported tracer
// API and an executable reference model, compared after every operation.

type kop struct {
	Kind   int // 0 RegTop 1 RegNested 2 Journal 3 Enter 4 Exit 5 Transfer
	Acct   int
	Name   string
	Slot   uint64
	Hashed bool     // slot = keccak-like big value derived from Slot
	Off    *big.Int // nil = absent
	Typ    int
	PSlot  uint64
	PHash  bool
	PTyp   int
	Val    []byte
	To     int
	Amount int64
}

func (o kop) String() string {
	off := "nil"
	if o.Off != nil {
		off = o.Off.String()
		if len(off) > 24 {
			off = "0x" + o.Off.Text(16)
		}
	}
	sl := func(s uint64, hh bool) string {
		if hh {
			return fmt.Sprintf("H%d", s)
		}
		return fmt.Sprint(s)
	}
	switch o.Kind {
	case 0:
		return fmt.Sprintf("RegTop(acct%d,%q,slot=%s,off=%s,type%d)", o.Acct, o.Name, sl(o.Slot, o.Hashed), off, o.Typ)
	case 1:
		return fmt.Sprintf("RegNested(acct%d,parent=(slot=%s,type%d),index=%q,slot=%s,off=%s,type%d)", o.Acct, sl(o.PSlot, o.PHash), o.PTyp, o.Name, sl(o.Slot, o.Hashed), off, o.Typ)
	case 2:
		return fmt.Sprintf("Journal(acct%d,slot=%s,off=%s,type%d,val=%x)", o.Acct, sl(o.Slot, o.Hashed), off, o.Typ, o.Val)
	case 3:
		return "EnterCall"
	case 4:
		return "ExitCall"
	case 5:
		return fmt.Sprintf("Transfer(acct%d->acct%d,%d)", o.Acct, o.To, o.Amount)
	}
	return "?"
}

func kAcct(i int) common.Address {
	var a common.Address
	a[0] = 0xac
	a[19] = byte(i + 1)
	return a
}
func kAcctS(i int) string { return fmt.Sprintf("acct%d", i) }

func kSlot(s uint64, hashed bool) *uint256.Int {
	if !hashed {
		return uint256.NewInt(s)
	}
	// a fixed "hashed position": large 256-bit value derived from s
	v := new(uint256.Int).SetBytes(common.BigToHash(new(big.Int).SetUint64(0x9e3779b97f4a7c15 * (s + 1))).Bytes())
	v.Lsh(v, 190)
	v.Add(v, uint256.NewInt(s))
	return v
}
func kSlotS(s uint64, hashed bool) string { return kSlot(s, hashed).Hex() }

func kTyp(t int) common.Hash {
	var hsh common.Hash
	hsh[0] = 0x77
	hsh[31] = byte(t)
	return hsh
}
func kTypS(t int) string { return fmt.Sprintf("type%d", t) }

func offU256(off *big.Int) *uint256.Int {
	if off == nil {
		return nil
	}
	v, _ := uint256.FromBig(off)
	return v
}

// fakeBalDB serves TransferWithRecord: only GetBalance is ever called on it.
type fakeBalDB struct {
	avm.StateDB
	bal map[common.Address]*big.Int
}

func (f *fakeBalDB) GetBalance(a common.Address) *big.Int {
	if v, ok := f.bal[a]; ok {
		return new(big.Int).Set(v)
	}
	return new(big.Int)
}

// ukey is one key of the query universe.
type ukey struct {
	acct  int
	path  []string // name, indices...
	slot  uint64
	hash  bool
	off   uint8
	typ   int
	extra bool // position-only probe (no path)
}

type kdriver struct {
	lastOK        bool // model accepted the last operation
	lastRefusable bool
	t             *avm.Tracer
	m             *keyreg.Model
	db            *fakeBalDB
	uni           []ukey
}

func newKDriver(uni []ukey) *kdriver {
	return &kdriver{t: avm.NewTracer(), m: keyreg.New(), db: &fakeBalDB{bal: map[common.Address]*big.Int{kAcct(0): big.NewInt(1000), kAcct(1): big.NewInt(5)}}, uni: uni}
}

func canonReal(c *avm.StorageChanges) string {
	if c == nil {
		return "<nil>"
	}
	return keyreg.Canon(c.Changes())
}

func canonRealBal(c *avm.StorageChanges) string {
	if c == nil {
		return "<nil>"
	}
	out := map[uint64][]*big.Int{}
	for i, l := range c.Changes() {
		for _, v := range l {
			out[i] = append(out[i], new(big.Int).SetBytes(v))
		}
		if len(l) == 0 {
			out[i] = []*big.Int{}
		}
	}
	return keyreg.CanonBal(out)
}

func canonModel(k *keyreg.Key) string {
	if k == nil {
		return "<nil>"
	}
	return keyreg.Canon(k.Changes)
}

// apply runs one operation on both sides; returns a description of a disagreement or "".
func (d *kdriver) apply(o kop) string {
	before := d.t.VerifDump()
	var realErr error
	var modelOK bool
	refusable := true
	switch o.Kind {
	case 0:
		realErr = d.t.SaveStateKey(kAcct(o.Acct), nil, kSlot(o.Slot, o.Hashed), offU256(o.Off), kTyp(o.Typ), common.Hash{}, []byte(o.Name))
		modelOK = d.m.RegTop(kAcctS(o.Acct), o.Name, kSlotS(o.Slot, o.Hashed), o.Off, kTypS(o.Typ))
	case 1:
		realErr = d.t.SaveStateKey(kAcct(o.Acct), kSlot(o.PSlot, o.PHash), kSlot(o.Slot, o.Hashed), offU256(o.Off), kTyp(o.Typ), kTyp(o.PTyp), []byte(o.Name))
		modelOK = d.m.RegNested(kAcctS(o.Acct), kSlotS(o.PSlot, o.PHash), kTypS(o.PTyp), kSlotS(o.Slot, o.Hashed), o.Off, kTypS(o.Typ), o.Name)
	case 2:
		realErr = d.t.SaveStateChange(kAcct(o.Acct), kSlot(o.Slot, o.Hashed), offU256(o.Off), kTyp(o.Typ), append([]byte{}, o.Val...))
		modelOK = d.m.Journal(kAcctS(o.Acct), kSlotS(o.Slot, o.Hashed), o.Off, kTypS(o.Typ), o.Val)
	case 3:
		to := kAcct(1)
		d.t.SaveCall(kAcct(0), &to, []byte{1}, uint256.NewInt(0), uint256.NewInt(1000))
		d.m.Enter()
		modelOK, refusable = true, false
	case 4:
		d.t.ExitCall(1, nil, nil)
		d.m.Exit()
		modelOK, refusable = true, false
	case 5:
		from, to := kAcct(o.Acct), kAcct(o.To)
		fb, tb := d.db.GetBalance(from), d.db.GetBalance(to)
		amt := big.NewInt(o.Amount)
		if amt.Cmp(fb) > 0 {
			amt = new(big.Int).Set(fb) // the VM never transfers more than the balance (CanTransfer)
		}
		d.t.TransferWithRecord(d.db, from, to, amt, func(_ avm.StateDB, f, t common.Address, a *big.Int) {
			d.db.bal[f] = new(big.Int).Sub(d.db.GetBalance(f), a)
			d.db.bal[t] = new(big.Int).Add(d.db.GetBalance(t), a)
		})
		d.m.Transfer(kAcctS(o.Acct), kAcctS(o.To), fb, tb, d.db.GetBalance(from), d.db.GetBalance(to))
		modelOK, refusable = true, false
	}
	d.lastOK, d.lastRefusable = modelOK, refusable
	if refusable {
		if (realErr == nil) != modelOK {
			return fmt.Sprintf("return value: implementation err=%v, model accepted=%v", realErr, modelOK)
		}
		if !modelOK {
			after := d.t.VerifDump()
			if !reflect.DeepEqual(before, after) {
				return "a refused operation modified the tracer (dump before != dump after)"
			}
		}
	}
	return d.compare()
}

func sortedStrs(bs [][]byte) []string {
	out := make([]string, len(bs))
	for i, b := range bs {
		out[i] = string(b)
	}
	sort.Strings(out)
	return out
}

// compare checks every query of the universe against the model.
func (d *kdriver) compare() string {
	sc := d.t.StateChanges()
	dump := d.t.VerifDump()
	// dump-level agreement: index entries == registered positions, every index entry reaches the node the name path reaches
	if len(dump.Index) != len(d.m.ByPos) {
		return fmt.Sprintf("flat index has %d entries, model has %d registered positions", len(dump.Index), len(d.m.ByPos))
	}
	if want := len(d.m.ByPath) + len(d.m.Roots); len(dump.Nodes) != want {
		return fmt.Sprintf("tracer holds %d key nodes, model expects %d (keys %d + account roots %d)", len(dump.Nodes), want, len(d.m.ByPath), len(d.m.Roots))
	}
	if len(dump.Roots) != len(d.m.Roots) {
		return fmt.Sprintf("tracer has %d account roots, model %d", len(dump.Roots), len(d.m.Roots))
	}
	byPathID := func(acct int, path []string) int {
		id, ok := dump.Roots[kAcct(acct)]
		if !ok {
			return -1
		}
		for _, el := range path {
			next := -1
			for _, ref := range dump.Nodes[id].ByName {
				if string(ref.Name) == el {
					next = ref.ID
				}
			}
			if next < 0 {
				return -1
			}
			id = next
		}
		return id
	}
	for _, u := range d.uni {
		acct := kAcct(u.acct)
		slot := kSlot(u.slot, u.hash)
		pos := keyreg.Pos{Acct: kAcctS(u.acct), Slot: kSlotS(u.slot, u.hash), Off: u.off, Typ: kTypS(u.typ)}
		mpos := d.m.ByPos[pos]
		// lookup by position
		got, err := sc.Slot(acct, slot, uint256.NewInt(uint64(u.off)), kTyp(u.typ))
		if err != nil {
			return fmt.Sprintf("Slot(%v) returned error %v for a valid offset", pos, err)
		}
		if g, w := canonReal(got), canonModel(mpos); g != w {
			return fmt.Sprintf("Slot(%v) = %s, model %s", pos, g, w)
		}
		idxID := -1
		for _, ie := range dump.Index {
			if ie.Account == acct && ie.Slot == slot.Bytes32() && ie.Offset == u.off && ie.TypeId == kTyp(u.typ) {
				idxID = ie.ID
			}
		}
		if (idxID >= 0) != (mpos != nil) {
			return fmt.Sprintf("flat index entry for %v present=%v, model registered=%v", pos, idxID >= 0, mpos != nil)
		}
		if u.extra {
			continue
		}
		// lookup by name / index path
		mpath := kAcctS(u.acct) + "\x00" + strings.Join(u.path, "\x00")
		mk := d.m.ByPath[mpath]
		var idx [][]byte
		for _, el := range u.path[1:] {
			idx = append(idx, []byte(el))
		}
		key := sc.FindKeyIndices(acct, u.path[0], idx...)
		if (key != nil) != (mk != nil) {
			return fmt.Sprintf("FindKeyIndices(%s) found=%v, model registered=%v", strings.Join(u.path, "/"), key != nil, mk != nil)
		}
		v := sc.Variable(acct, u.path[0], idx...)
		if g, w := canonReal(v), canonModel(mk); g != w {
			return fmt.Sprintf("Variable(%s) = %s, model %s", strings.Join(u.path, "/"), g, w)
		}
		ioc := sc.IndicesOfChanges(acct, u.path[0], idx...)
		if g, w := sortedStrs(ioc), d.m.Children(mpath); !(len(g) == 0 && len(w) == 0) && !reflect.DeepEqual(g, w) {
			return fmt.Sprintf("IndicesOfChanges(%s) = %q, model children %q", strings.Join(u.path, "/"), g, w)
		}
		if mk == nil {
			continue
		}
		if key.Slot() == nil || !key.Slot().Eq(kSlot(u.slot, u.hash)) || key.Offset() != u.off {
			return fmt.Sprintf("key %s reports slot/offset %v/%d, registered %v/%d", strings.Join(u.path, "/"), key.Slot(), key.Offset(), pos.Slot, u.off)
		}
		if mk.Pos != pos {
			return fmt.Sprintf("harness: universe position of %s disagrees with model %v vs %v", mpath, pos, mk.Pos)
		}
		if g, w := canonReal(key.Changes()), canonModel(mk); g != w {
			return fmt.Sprintf("key(%s).Changes() = %s, model %s", strings.Join(u.path, "/"), g, w)
		}
		if v != got {
			return fmt.Sprintf("lookup by name path and by (slot,offset,type) reach different records for %s: %p vs %p", strings.Join(u.path, "/"), v, got)
		}
		if pid := byPathID(u.acct, u.path); pid != idxID {
			return fmt.Sprintf("name path of %s reaches node #%d, flat index reaches node #%d", strings.Join(u.path, "/"), pid, idxID)
		}
		wantType := avm.BranchNode
		if mk.Changes != nil {
			wantType = avm.DataNode
		}
		if key.NodeType() != wantType {
			return fmt.Sprintf("key %s has node type %d, expected %d", strings.Join(u.path, "/"), key.NodeType(), wantType)
		}
		if g, w := sortedStrs(key.ChildrenIndices()), d.m.Children(mpath); !(len(g) == 0 && len(w) == 0) && !reflect.DeepEqual(g, w) {
			return fmt.Sprintf("ChildrenIndices(%s) = %q, model %q", strings.Join(u.path, "/"), g, w)
		}
		if len(key.Children()) != len(d.m.Children(mpath)) {
			return fmt.Sprintf("Children(%s) has %d elements, model %d", strings.Join(u.path, "/"), len(key.Children()), len(d.m.Children(mpath)))
		}
	}
	for a := 0; a < 3; a++ {
		g := canonRealBal(sc.Balance(kAcct(a)))
		w := "<nil>"
		if b, ok := d.m.Balance[kAcctS(a)]; ok {
			w = keyreg.CanonBal(b)
		}
		if g != w {
			return fmt.Sprintf("Balance(acct%d) = %s, model %s", a, g, w)
		}
	}
	// top-level names
	for a := 0; a < 3; a++ {
		if id, ok := dump.Roots[kAcct(a)]; ok {
			var names []string
			for _, r := range dump.Nodes[id].ByName {
				names = append(names, string(r.Name))
			}
			sort.Strings(names)
			if w := d.m.TopLevel(kAcctS(a)); !(len(names) == 0 && len(w) == 0) && !reflect.DeepEqual(names, w) {
				return fmt.Sprintf("top-level names of acct%d = %q, model %q", a, names, w)
			}
		}
	}
	// call cursor
	ct := d.t.CallTree()
	if d.m.Open() == 0 {
		if ct.Current() != nil {
			return "call cursor not at rest while the model has no open call"
		}
	} else if ct.Current() == nil || ct.Current().Index != d.m.Cur() {
		return fmt.Sprintf("current call index differs from the model's %d", d.m.Cur())
	}
	if d.t.CurrentCallIndex() != d.m.Cur() {
		return fmt.Sprintf("CurrentCallIndex()=%d, model %d", d.t.CurrentCallIndex(), d.m.Cur())
	}
	if dump.Count != d.m.Count {
		return fmt.Sprintf("call count %d, model %d", dump.Count, d.m.Count)
	}
	return ""
}

// The small-scope alphabet (concrete operations) and its query universe.
var (
	v1 = []byte{0x01}
	v2 = []byte{0x02, 0x00}
)

func big256m1() *big.Int {
	return new(big.Int).Sub(new(big.Int).Lsh(big.NewInt(1), 256), big.NewInt(1))
}

var c11Alphabet = []kop{
	{Kind: 0, Acct: 0, Name: "a", Slot: 0, Off: big.NewInt(0), Typ: 1},                     // 0
	{Kind: 0, Acct: 0, Name: "b", Slot: 0, Off: big.NewInt(16), Typ: 2},                    // 1 packed: same slot, other offset
	{Kind: 0, Acct: 0, Name: "s", Slot: 1, Off: nil, Typ: 3},                               // 2 struct (reference registration: no offset)
	{Kind: 1, Acct: 0, Name: "x", PSlot: 1, PTyp: 3, Slot: 1, Off: big.NewInt(0), Typ: 1},  // 3 member sharing (slot, offset) with its parent, distinct type
	{Kind: 1, Acct: 0, Name: "y", PSlot: 1, PTyp: 3, Slot: 2, Off: big.NewInt(31), Typ: 2}, // 4
	{Kind: 2, Acct: 0, Slot: 0, Off: big.NewInt(0), Typ: 1, Val: v1},                       // 5
	{Kind: 2, Acct: 0, Slot: 0, Off: big.NewInt(0), Typ: 1, Val: v2},                       // 6
	{Kind: 2, Acct: 0, Slot: 1, Off: big.NewInt(0), Typ: 1, Val: v1},                       // 7 journal of nested x
	{Kind: 2, Acct: 0, Slot: 0, Off: big.NewInt(16), Typ: 2, Val: v1},                      // 8
	{Kind: 3}, // 9 enter
	{Kind: 4}, // 10 exit
	{Kind: 0, Acct: 1, Name: "a", Slot: 0, Off: big.NewInt(0), Typ: 1},                                       // 11 other account, same layout
	{Kind: 2, Acct: 1, Slot: 0, Off: big.NewInt(0), Typ: 1, Val: v2},                                         // 12
	{Kind: 5, Acct: 0, To: 1, Amount: 3},                                                                     // 13 transfer
	{Kind: 2, Acct: 0, Slot: 0, Off: big.NewInt(256), Typ: 1, Val: v2},                                       // 14 hostile: offset 256
	{Kind: 0, Acct: 0, Name: "h", Slot: 0, Off: big.NewInt(32), Typ: 1},                                      // 15 hostile: offset 32
	{Kind: 1, Acct: 0, Name: "z", PSlot: 0, PTyp: 3, Slot: 3, Off: big.NewInt(0), Typ: 1},                    // 16 hostile: unknown parent (slot 0 has no type-3 key)
	{Kind: 2, Acct: 0, Slot: 1, Off: nil, Typ: 3, Val: v1},                                                   // 17 journal of the struct key itself (reference journal: nil offset)
	{Kind: 1, Acct: 0, Name: "y", PSlot: 1, PTyp: 3, Slot: 2, Off: new(big.Int).SetUint64(31 + 256), Typ: 2}, // 18 hostile: offset 287 (low byte 31)
}

var c11Universe = []ukey{
	{acct: 0, path: []string{"a"}, slot: 0, off: 0, typ: 1},
	{acct: 0, path: []string{"b"}, slot: 0, off: 16, typ: 2},
	{acct: 0, path: []string{"s"}, slot: 1, off: 0, typ: 3},
	{acct: 0, path: []string{"s", "x"}, slot: 1, off: 0, typ: 1},
	{acct: 0, path: []string{"s", "y"}, slot: 2, off: 31, typ: 2},
	{acct: 1, path: []string{"a"}, slot: 0, off: 0, typ: 1},
	{acct: 0, path: []string{"h"}, slot: 0, off: 0, typ: 1},
	{acct: 0, path: []string{"s", "z"}, slot: 3, off: 0, typ: 1},
	{acct: 1, path: []string{"b"}, slot: 0, off: 16, typ: 2},
	{acct: 0, slot: 0, off: 0, typ: 2, extra: true},
	{acct: 0, slot: 0, off: 16, typ: 1, extra: true},
	{acct: 0, slot: 2, off: 0, typ: 2, extra: true},
	{acct: 2, slot: 0, off: 0, typ: 1, extra: true},
	{acct: 0, slot: 1, off: 1, typ: 1, extra: true},
}

func c11Depth(tier string) int {
	if quick(tier) {
		return 4
	}
	return 5
}

func init() {
	Register(&Prop{
		ID:    "C11",
		Level: "exploration",
		Rule: "histories of register-top-level / register-nested / journal / enter-call / exit-call / transfer operations are applied to the real exported Tracer API and to an executable map-based reference model; after EVERY operation the return value and every query of a fixed universe (Variable, FindKeyIndices+accessors, Slot, IndicesOfChanges, ChildrenIndices, Children, Balance, node type, call cursor) and the complete hook dump (flat-index entry and name path must reach the same node id; node/index/root counts) are compared; a refused operation must leave the dump unchanged. " +
			"kind exh: ALL histories up to the tier's length over a 19-operation alphabet (2 accounts, shared slot with distinct offsets, member sharing (slot,offset) with its parent under a distinct type, hostile offsets 32/256/287, unknown parent, re-registration) - exhaustive for that scope; kind rnd: random layout-consistent histories of length <= 40 over generated layouts (nested mappings/structs, hashed slots, hostile offsets up to 2^256-1, unknown accounts/parents/keys); " +
			"distinct_nontrivial = distinct final model states (hash of registered keys + change lists + cursor) reached with at least one registration",
		Assumptions: []string{
			"histories are layout consistent: within one account a (slot, offset, type) triple denotes one key path and vice versa (what a compiler emits); conflicting registrations are not generated because the statement does not define them",
			"the exhaustive part is exhaustive only for its alphabet and length bound",
		},
		Exhaustive: func(tier string) bool { return false },
		Cases: func(seed uint64, tier string) []Case {
			var cs []Case
			// exhaustive part: split by the first two operations
			n := len(c11Alphabet)
			for a := 0; a < n; a++ {
				for b := 0; b < n; b++ {
					cs = append(cs, Case{Kind: "exh", P: []int64{int64(a), int64(b), int64(c11Depth(tier))}})
				}
			}
			nr := 400
			if !quick(tier) {
				nr = 30000
			}
			for i := 0; i < nr; i++ {
				cs = append(cs, Case{Kind: "rnd", Seed: h.Mix(seed, 0xC11, uint64(i))})
			}
			return cs
		},
		Run: runC11,
		Floors: func(tier string) map[string]int64 {
			return map[string]int64{"histories": 50000, "ops_applied": 200000, "refused_ops": 10000, "journals_accepted": 2000}
		},
	})
}

func modelShape(m *keyreg.Model) string {
	var parts []string
	for p, k := range m.ByPath {
		parts = append(parts, p+"="+keyreg.Canon(k.Changes))
	}
	sort.Strings(parts)
	var bal []string
	for a, b := range m.Balance {
		bal = append(bal, a+keyreg.CanonBal(b))
	}
	sort.Strings(bal)
	return fmt.Sprint(parts, bal, m.Cur(), m.Count, m.Open())
}

func runC11(c Case, tier string) (res CaseResult) {
	switch c.Kind {
	case "exh":
		depth := int(c.P[2])
		n := len(c11Alphabet)
		hist := make([]int, depth)
		hist[0], hist[1] = int(c.P[0]), int(c.P[1])
		var histories, ops, refused, accepted int64
		// enumerate all suffixes; replay each history from scratch for lengths 2..depth
		var rec func(pos int)
		run := func(l int) {
			d := newKDriver(c11Universe)
			histories++
			for i := 0; i < l; i++ {
				o := c11Alphabet[hist[i]]
				ops++
				if bad := d.apply(o); bad != "" {
					var hs []string
					for j := 0; j <= i; j++ {
						hs = append(hs, c11Alphabet[hist[j]].String())
					}
					res.Fail(Key("model-mismatch", fmt.Sprintf("op%d", o.Kind)), "tracer API disagrees with the reference model: "+bad, append([]string{"history:"}, hs...)...)
					return
				}
			}
			if len(d.m.ByPath) > 0 {
				res.Shape(modelShape(d.m))
			}
			if d.lastRefusable {
				if !d.lastOK {
					refused++
				} else if c11Alphabet[hist[l-1]].Kind == 2 {
					accepted++
				}
			}
		}
		rec = func(pos int) {
			if pos >= 2 {
				run(pos)
			}
			if pos == depth {
				return
			}
			for k := 0; k < n; k++ {
				hist[pos] = k
				rec(pos + 1)
			}
		}
		rec(2)
		res.Evals = histories
		res.Count("histories", histories)
		res.Count("ops_applied", ops)
		res.Count("refused_ops", refused)
		res.Count("journals_accepted", accepted)
		res.Count("exhaustive_histories", histories)
		if c.P[0] == 2 && c.P[1] == 3 {
			res.Sample = map[string]interface{}{"kind": "exh", "first_two_ops": []string{c11Alphabet[c.P[0]].String(), c11Alphabet[c.P[1]].String()}, "depth": depth, "histories": histories}
		}
	case "rnd":
		runC11Random(c, &res)
	}
	return
}

// layout is a generated, consistent storage layout for one account.
type lkey struct {
	path   []string
	slot   uint64
	hash   bool
	off    uint8
	typ    int
	parent int // index into layout, -1 = top level
	noOff  bool
}

func genLayout(r *h.RNG) []lkey {
	var ks []lkey
	nTop := 2 + r.Intn(4)
	slot := uint64(0)
	typ := 1
	for i := 0; i < nTop; i++ {
		name := string(rune('a' + i))
		switch r.Intn(4) {
		case 0: // packed pair in one slot
			ks = append(ks, lkey{path: []string{name}, slot: slot, off: 0, typ: typ, parent: -1})
			ks = append(ks, lkey{path: []string{name + "2"}, slot: slot, off: uint8(1 + r.Intn(31)), typ: typ + 1, parent: -1})
			typ += 2
		case 1: // struct with members (first member shares slot+offset with the parent)
			p := len(ks)
			ks = append(ks, lkey{path: []string{name}, slot: slot, typ: typ, parent: -1, noOff: true})
			ks = append(ks, lkey{path: []string{name, "m0"}, slot: slot, off: 0, typ: typ + 1, parent: p})
			ks = append(ks, lkey{path: []string{name, "m1"}, slot: slot, off: uint8(8 + r.Intn(20)), typ: typ + 2, parent: p})
			slot++
			ks = append(ks, lkey{path: []string{name, "m2"}, slot: slot, off: 0, typ: typ + 1, parent: p})
			typ += 3
		case 2: // mapping with hashed element slots; elements may be structs
			p := len(ks)
			ks = append(ks, lkey{path: []string{name}, slot: slot, typ: typ, parent: -1, noOff: true})
			ne := 1 + r.Intn(3)
			for e := 0; e < ne; e++ {
				idx := string(r.Bytes(1 + r.Intn(32)))
				hs := uint64(1000 + len(ks))
				if r.Bool() {
					ks = append(ks, lkey{path: []string{name, idx}, slot: hs, hash: true, off: 0, typ: typ + 1, parent: p})
				} else {
					q := len(ks)
					ks = append(ks, lkey{path: []string{name, idx}, slot: hs, hash: true, typ: typ + 2, parent: p, noOff: true})
					ks = append(ks, lkey{path: []string{name, idx, "f"}, slot: hs, hash: true, off: 0, typ: typ + 1, parent: q})
					ks = append(ks, lkey{path: []string{name, idx, "g"}, slot: hs, hash: true, off: 20, typ: typ + 3, parent: q})
				}
			}
			typ += 4
		default: // plain variable
			ks = append(ks, lkey{path: []string{name}, slot: slot, off: 0, typ: typ, parent: -1, noOff: r.Bool()})
			typ++
		}
		slot++
	}
	return ks
}

var hostileOffsets = []*big.Int{
	big.NewInt(32), big.NewInt(33), big.NewInt(255), big.NewInt(256), big.NewInt(260), new(big.Int).Lsh(big.NewInt(1), 32),
	new(big.Int).Lsh(big.NewInt(1), 63), new(big.Int).Lsh(big.NewInt(1), 64), new(big.Int).Add(new(big.Int).Lsh(big.NewInt(1), 64), big.NewInt(5)),
	new(big.Int).Lsh(big.NewInt(1), 255), big256m1(),
}

func runC11Random(c Case, res *CaseResult) {
	r := h.NewRNG(c.Seed)
	layouts := [][]lkey{genLayout(r), genLayout(r)}
	if r.Chance(50) {
		layouts[1] = layouts[0] // two accounts with the same layout (same code deployed twice)
	}
	var uni []ukey
	for a, l := range layouts {
		for _, k := range l {
			uni = append(uni, ukey{acct: a, path: k.path, slot: k.slot, hash: k.hash, off: k.off, typ: k.typ})
		}
	}
	uni = append(uni, ukey{acct: 2, slot: 0, off: 0, typ: 1, extra: true}, ukey{acct: 0, slot: 999, off: 0, typ: 1, extra: true})
	d := newKDriver(uni)
	n := 5 + r.Intn(36)
	var hist []string
	var refused, accepted int64
	vals := [][]byte{{}, {0}, {1}, {1, 2, 3}, bytes.Repeat([]byte{0xff}, 32), r.Bytes(1 + r.Intn(40))}
	opOff := func(k lkey) *big.Int {
		if k.noOff && k.off == 0 {
			return nil
		}
		return big.NewInt(int64(k.off))
	}
	for i := 0; i < n; i++ {
		a := r.Intn(2)
		l := layouts[a]
		k := l[r.Intn(len(l))]
		var o kop
		switch x := r.Intn(20); {
		case x < 6: // register (top or nested)
			if k.parent < 0 {
				o = kop{Kind: 0, Acct: a, Name: k.path[0], Slot: k.slot, Hashed: k.hash, Off: opOff(k), Typ: k.typ}
			} else {
				p := l[k.parent]
				o = kop{Kind: 1, Acct: a, Name: k.path[len(k.path)-1], PSlot: p.slot, PHash: p.hash, PTyp: p.typ, Slot: k.slot, Hashed: k.hash, Off: opOff(k), Typ: k.typ}
			}
		case x < 13: // journal
			o = kop{Kind: 2, Acct: a, Slot: k.slot, Hashed: k.hash, Off: opOff(k), Typ: k.typ, Val: h.Pick(r, vals)}
		case x < 15:
			o = kop{Kind: 3}
		case x < 17:
			o = kop{Kind: 4}
		case x == 17:
			o = kop{Kind: 5, Acct: r.Intn(2), To: r.Intn(3), Amount: int64(r.Intn(3))}
		default: // hostile
			switch r.Intn(6) {
			case 0: // hostile offset on a journal
				o = kop{Kind: 2, Acct: a, Slot: k.slot, Hashed: k.hash, Off: h.Pick(r, hostileOffsets), Typ: k.typ, Val: []byte{9}}
			case 1: // hostile offset on a registration
				if k.parent < 0 {
					o = kop{Kind: 0, Acct: a, Name: k.path[0], Slot: k.slot, Hashed: k.hash, Off: h.Pick(r, hostileOffsets), Typ: k.typ}
				} else {
					p := l[k.parent]
					o = kop{Kind: 1, Acct: a, Name: k.path[len(k.path)-1], PSlot: p.slot, PHash: p.hash, PTyp: p.typ, Slot: k.slot, Hashed: k.hash, Off: h.Pick(r, hostileOffsets), Typ: k.typ}
				}
			case 2: // unknown account
				o = kop{Kind: 2, Acct: 2, Slot: k.slot, Hashed: k.hash, Off: opOff(k), Typ: k.typ, Val: []byte{9}}
			case 3: // unknown parent (wrong parent type)
				o = kop{Kind: 1, Acct: a, Name: "q", PSlot: k.slot, PHash: k.hash, PTyp: 99, Slot: 777, Off: big.NewInt(0), Typ: 98}
			case 4: // journal at a registered slot with an unregistered type
				o = kop{Kind: 2, Acct: a, Slot: k.slot, Hashed: k.hash, Off: opOff(k), Typ: 97, Val: []byte{9}}
			default: // journal at an unregistered offset of a registered slot
				o = kop{Kind: 2, Acct: a, Slot: k.slot, Hashed: k.hash, Off: big.NewInt(int64((int(k.off) + 1 + r.Intn(30)) % 32)), Typ: 96, Val: []byte{9}}
			}
		}
		hist = append(hist, o.String())
		// pre-compute acceptance for the counters using the model's view after the fact
		nBefore := len(d.m.ByPath)
		if bad := d.apply(o); bad != "" {
			res.Fail(Key("model-mismatch", fmt.Sprintf("op%d", o.Kind)), "tracer API disagrees with the reference model: "+bad, append([]string{"history:"}, hist...)...)
			return
		}
		_ = nBefore
		if o.Kind == 2 {
			// accepted iff the model has the key (cheap re-derivation)
			off, ok := keyreg.OffsetOK(o.Off)
			if ok && d.m.Roots[kAcctS(o.Acct)] && d.m.ByPos[keyreg.Pos{Acct: kAcctS(o.Acct), Slot: kSlotS(o.Slot, o.Hashed), Off: off, Typ: kTypS(o.Typ)}] != nil {
				accepted++
			} else {
				refused++
			}
		} else if o.Kind <= 1 {
			if _, ok := keyreg.OffsetOK(o.Off); !ok {
				refused++
			}
		}
	}
	res.Count("histories", 1)
	res.Count("random_histories", 1)
	res.Count("ops_applied", int64(n))
	res.Count("refused_ops", refused)
	res.Count("journals_accepted", accepted)
	if len(d.m.ByPath) > 0 {
		res.Shape(modelShape(d.m))
	}
	if c.Seed%53 == 0 {
		res.Sample = map[string]interface{}{"kind": "rnd", "history": hist}
	}
}
