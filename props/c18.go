package props

import (
	"bytes"
	"encoding/json"
	"fmt"
	"math/big"
	"sort"
	"strings"

	h "verif/harness"

	atracers "github.com/artela-network/artela-evm/tracers"
	alogger "github.com/artela-network/artela-evm/tracers/logger"
	_ "github.com/artela-network/artela-evm/tracers/native"
	avm "github.com/artela-network/artela-evm/vm"
	"github.com/ethereum/go-ethereum/common"
	"github.com/ethereum/go-ethereum/core/types"
	evm "github.com/ethereum/go-ethereum/core/vm"
	etracers "github.com/ethereum/go-ethereum/eth/tracers"
	elogger "github.com/ethereum/go-ethereum/eth/tracers/logger"
	_ "github.com/ethereum/go-ethereum/eth/tracers/native"
)

// C18 — debug-tracer stream and inherited tracers match upstream.

type tracerKind struct {
	name string
	cfg  string
}

var pairedTracers = []tracerKind{
	{"struct", `{}`},
	{"struct", `{"EnableMemory":true,"EnableReturnData":true}`},
	{"struct", `{"DisableStack":true,"DisableStorage":true}`},
	{"struct", `{"EnableMemory":true,"Limit":7}`},
	{"json", `{"EnableMemory":true,"EnableReturnData":true}`},
	{"json", `{"DisableStack":true}`},
	{"accesslist", ``},
	{"accesslist", `seeded`},
	{"callTracer", `{}`},
	{"callTracer", `{"onlyTopCall":true}`},
	{"callTracer", `{"withLog":true}`},
	{"callTracer", `{"onlyTopCall":true,"withLog":true}`},
	{"flatCallTracer", `{}`},
	{"flatCallTracer", `{"convertParityErrors":true}`},
	{"flatCallTracer", `{"includePrecompiles":true}`},
	{"flatCallTracer", `{"convertParityErrors":true,"includePrecompiles":true}`},
	{"prestateTracer", `{}`},
	{"prestateTracer", `{"diffMode":true}`},
	{"4byteTracer", `{}`},
	{"muxTracer", `{"callTracer":{"withLog":true},"4byteTracer":null,"prestateTracer":{"diffMode":true}}`},
	{"noopTracer", `{}`},
}

func init() {
	Register(&Prop{
		ID:    "C18",
		Level: "exploration",
		Rule: "kind stream: generated in-domain programs (C01 generator, all forks/entries) run on both VMs with full recorders; callback sequences are compared on every argument (pc, op, gas, cost, depth, stack, memory, return data, error class, from/to/input/gas/value, output/gasUsed); " +
			"kind tracer: the same execution is traced by each inherited tracer (struct logger x4 configs, JSON logger x2, access-list, call x4, flatCall x4, prestate x2, 4byte, mux, noop) on the fork and by its upstream original on go-ethereum, outputs compared byte-wise; " +
			"kind balance: Aspect-bound call trees with a failure injected at each join-point firing are run on the fork and Start/End, Enter/Exit must stay balanced; distinct_nontrivial = distinct (shape, tracer config) pairs with >=3 instructions",
		Assumptions: []string{
			"go-ethereum v1.12.0 tracers are the trusted originals",
			"executions that encounter an opcode byte the fork names differently (0x5c-0x5e, 0xe0-0xe7, even faulting) or touch 0x64-0x66 are out of domain for output comparison",
			"CaptureTxStart/CaptureTxEnd are issued by the harness identically on both sides (upstream issues them from the state transition, outside the VM)",
		},
		Cases: func(seed uint64, tier string) []Case {
			ns, nt, nb := 700, 60, 20
			if !quick(tier) {
				ns, nt, nb = 10000, 400, 200
			}
			var cs []Case
			for i := 0; i < ns; i++ {
				cs = append(cs, Case{Kind: "stream", Seed: h.Mix(seed, 0xC18, uint64(i))})
			}
			for i := 0; i < nt; i++ {
				for k := range pairedTracers {
					cs = append(cs, Case{Kind: "tracer", Seed: h.Mix(seed, 0xC18A, uint64(i)), P: []int64{int64(k)}})
				}
			}
			for i := 0; i < nb; i++ {
				cs = append(cs, Case{Kind: "balance", Seed: h.Mix(seed, 0xC18B, uint64(i))})
			}
			for _, f := range []h.Fork{h.Homestead, h.Byzantium, h.Shanghai} {
				for _, k := range []byte{h.CALL, h.CALLCODE, h.DELEGATECALL, h.STATICCALL} {
					if k == h.STATICCALL && f < h.Byzantium {
						continue
					}
					cs = append(cs, Case{Kind: "depth", P: []int64{int64(f), int64(k)}})
				}
			}
			// call trees with logs inside frames whose ancestors fail, traced by the log / call-structure sensitive tracers
			for i := 0; i < nt; i++ {
				cs = append(cs, Case{Kind: "ttree", Seed: h.Mix(seed, 0xC18C, uint64(i))})
			}
			return cs
		},
		Run: runC18,
		Floors: func(tier string) map[string]int64 {
			return map[string]int64{"steps_compared": 50000, "tracer_pairs": 600, "balance_runs": 150}
		},
	})
}

func namedDifferently(l *h.Log) bool {
	for i := range l.Events {
		e := &l.Events[i]
		if e.K == h.KStep || e.K == h.KFault {
			if (e.Op >= 0xe0 && e.Op <= 0xe7) || (e.Op >= 0x5c && e.Op <= 0x5e) || e.Op == 0xb3 || e.Op == 0xb4 {
				return true
			}
		}
	}
	return false
}

func tctxA() *atracers.Context {
	return &atracers.Context{BlockHash: common.HexToHash("0xb10c"), BlockNumber: big.NewInt(100), TxIndex: 3, TxHash: common.HexToHash("0x7c")}
}
func tctxE() *etracers.Context {
	return &etracers.Context{BlockHash: common.HexToHash("0xb10c"), BlockNumber: big.NewInt(100), TxIndex: 3, TxHash: common.HexToHash("0x7c")}
}

// runTracerPair traces dc with tracer kind k on both VMs; returns outputs.
func runTracerPair(dc DualCase, k tracerKind) (fout, rout string, err error) {
	var (
		ft   avm.EVMLogger
		rt   evm.EVMLogger
		fbuf bytes.Buffer
		rbuf bytes.Buffer
		fget func() string
		rget func() string
	)
	rulesF := h.ChainConfig(dc.Env.Fork).Rules(big.NewInt(100), dc.Env.Fork.IsMergeOrLater(), 1_700_000_000)
	switch k.name {
	case "struct":
		var c1 alogger.Config
		var c2 elogger.Config
		json.Unmarshal([]byte(k.cfg), &c1)
		json.Unmarshal([]byte(k.cfg), &c2)
		a, b := alogger.NewStructLogger(&c1), elogger.NewStructLogger(&c2)
		ft, rt = a, b
		fget = func() string {
			r, e := a.GetResult()
			sl, _ := json.Marshal(a.StructLogs())
			return fmt.Sprintf("%s|%v|%s|%x|%v", r, e, sl, a.Output(), a.Error())
		}
		rget = func() string {
			r, e := b.GetResult()
			sl, _ := json.Marshal(b.StructLogs())
			return fmt.Sprintf("%s|%v|%s|%x|%v", r, e, sl, b.Output(), b.Error())
		}
	case "json":
		var c1 alogger.Config
		var c2 elogger.Config
		json.Unmarshal([]byte(k.cfg), &c1)
		json.Unmarshal([]byte(k.cfg), &c2)
		ft, rt = alogger.NewJSONLogger(&c1, &fbuf), elogger.NewJSONLogger(&c2, &rbuf)
		fget = func() string { return fbuf.String() }
		rget = func() string { return rbuf.String() }
	case "accesslist":
		var seedList types.AccessList
		if k.cfg == "seeded" {
			// the list a caller already has (eth_createAccessList iterates): entries with storage keys for the
			// sender, the recipient, a precompile, the coinbase and third parties, one address listed twice
			seedList = types.AccessList{
				{Address: dc.Tx.From, StorageKeys: []common.Hash{{31: 1}, {31: 2}}},
				{Address: dc.Tx.To, StorageKeys: []common.Hash{{31: 0}, {31: 1}, {0: 0xff}}},
				{Address: common.BytesToAddress([]byte{2}), StorageKeys: []common.Hash{{31: 9}}},
				{Address: h.ContractAddr(1), StorageKeys: []common.Hash{{31: 3}}},
				{Address: h.Coinbase},
				{Address: h.Nobody, StorageKeys: []common.Hash{{31: 4}, {31: 4}}},
				{Address: h.ContractAddr(1), StorageKeys: []common.Hash{{31: 5}}},
			}
		}
		cp := func() types.AccessList {
			out := make(types.AccessList, len(seedList))
			for i, t := range seedList {
				out[i] = types.AccessTuple{Address: t.Address, StorageKeys: append([]common.Hash(nil), t.StorageKeys...)}
			}
			if seedList == nil {
				return nil
			}
			return out
		}
		a := alogger.NewAccessListTracer(cp(), dc.Tx.From, dc.Tx.To, avm.ActivePrecompiles(rulesF))
		b := elogger.NewAccessListTracer(cp(), dc.Tx.From, dc.Tx.To, evm.ActivePrecompiles(rulesF))
		ft, rt = a, b
		// AccessList() ranges over a map in both implementations: compare as a sorted list
		canon := func(al types.AccessList) string {
			sort.Slice(al, func(i, j int) bool { return bytes.Compare(al[i].Address[:], al[j].Address[:]) < 0 })
			for _, t := range al {
				ks := t.StorageKeys
				sort.Slice(ks, func(i, j int) bool { return bytes.Compare(ks[i][:], ks[j][:]) < 0 })
			}
			j, _ := json.Marshal(al)
			return string(j)
		}
		fget = func() string { return canon(a.AccessList()) }
		rget = func() string { return canon(b.AccessList()) }
	default:
		a, e1 := atracers.DefaultDirectory.New(k.name, tctxA(), json.RawMessage(k.cfg))
		b, e2 := etracers.DefaultDirectory.New(k.name, tctxE(), json.RawMessage(k.cfg))
		if e1 != nil || e2 != nil {
			return "", "", fmt.Errorf("tracer ctor: fork=%v ref=%v", e1, e2)
		}
		ft, rt = a, b
		fget = func() string { r, e := a.GetResult(); return fmt.Sprintf("%s|%v", r, e) }
		rget = func() string { r, e := b.GetResult(); return fmt.Sprintf("%s|%v", r, e) }
	}
	fs := h.NewForkSession(dc.World, dc.Env, h.ForkOpts{Debug: true, Tee: ft, OnlyTee: true})
	ft.CaptureTxStart(dc.Tx.Gas)
	fres := fs.Invoke(dc.Tx)
	ft.CaptureTxEnd(fres.Gas)
	rs := h.NewRefSession(dc.World, dc.Env, h.RefOpts{Debug: true, Tee: rt, OnlyTee: true})
	rt.CaptureTxStart(dc.Tx.Gas)
	rres := rs.Invoke(dc.Tx)
	rt.CaptureTxEnd(rres.Gas)
	if fres.Panic != "" || rres.Panic != "" {
		return "PANIC:" + fres.Panic + "\n" + clip(fres.PanicStk, 1500), "PANIC:" + rres.Panic, nil
	}
	return fget(), rget(), nil
}

func runC18(c Case, tier string) (res CaseResult) {
	switch c.Kind {
	case "stream":
		dc := genDual(c.Seed, h.Shanghai, nil)
		fs, _, ok := dualStreams(&res, dc, true, "full stream")
		if !ok {
			return
		}
		if _, unb := buildFrames(fs.L); unb != "" && !(strings.Contains(unb, "outside any Start") && dc.Tx.Entry != h.ECall && dc.Tx.Entry != h.ECreate && dc.Tx.Entry != h.ECreate2) {
			// (CallCode/DelegateCall/StaticCall invoked at depth 0 announce themselves with Enter on both implementations)
			res.Fail(Key("balance", "plain"), "fork tracer stream unbalanced: "+unb, dc.Desc)
		}
		opsCovered(&res, fs.L)
		steps := 0
		for i := range fs.L.Events {
			if fs.L.Events[i].K == h.KStep {
				steps++
			}
		}
		if steps >= 3 {
			res.Shape("stream", shapeOf(fs.L))
		}
		res.Set("forks", dc.Env.Fork.String())
		res.Set("entries", dc.Tx.Entry.String())
		if c.Seed%89 == 0 {
			res.Sample = map[string]interface{}{"case": c, "desc": dc.Desc, "callbacks": len(fs.L.Events)}
		}
	case "tracer":
		k := pairedTracers[c.P[0]]
		dc := genDual(c.Seed, h.Shanghai, func(o *h.GenOpts) {
			o.CallBias = 25
			o.Extra, o.ExtraBias = []func(g *h.Gen){h.LogGadget}, 12 // (several tracers report logs)
		})
		// The inherited tracers are attached by a chain to transactions, which enter the VM through
		// Call or Create only; CallCode/DelegateCall/StaticCall at depth 0 emit no CaptureStart on
		// either implementation (several tracers then dereference a nil env on both sides).
		switch dc.Tx.Entry {
		case h.ECallCode, h.EDelegateCall, h.EStaticCall:
			dc.Tx.Entry = h.ECall
			dc.Tx.From = h.Sender
		}
		if dc.Tx.Entry == h.ECall && c.Seed%7 == 0 {
			// sender and recipient are one account (a contract calling itself at the top level), with value
			dc.Tx.From = dc.Tx.To
			dc.Tx.Value = big.NewInt(int64(1 + c.Seed%5))
			dc.Desc += " (sender = recipient)"
		}
		// domain: classify with a plain recorded run of the reference and the fork
		rs := h.NewRefSession(dc.World, dc.Env, h.RefOpts{Debug: true, RecSteps: true, LightMem: true})
		rs.Invoke(dc.Tx)
		fs := h.NewForkSession(dc.World, dc.Env, h.ForkOpts{Debug: true, RecSteps: true, LightMem: true})
		fs.Invoke(dc.Tx)
		if out, why := executedOutOfDomain(rs.L, dc.Tx, nil); out || namedDifferently(rs.L) || namedDifferently(fs.L) {
			res.Count("out_of_domain", 1)
			res.Set("out_of_domain_reasons", why+"/named-differently")
			return
		}
		if out, _ := executedOutOfDomain(fs.L, dc.Tx, nil); out {
			res.Count("out_of_domain", 1)
			return
		}
		fo, ro, err := runTracerPair(dc, k)
		if err != nil {
			res.Fail(Key("tracer-ctor", k.name), err.Error())
			return
		}
		res.Count("tracer_pairs", 1)
		res.Set("tracers", k.name+k.cfg)
		if fo != ro {
			// locate first difference
			i := 0
			for i < len(fo) && i < len(ro) && fo[i] == ro[i] {
				i++
			}
			lo := i - 80
			if lo < 0 {
				lo = 0
			}
			res.Fail(Key("tracer-output", k.name), fmt.Sprintf("%s %s output differs from upstream original", k.name, k.cfg),
				dc.Desc, fmt.Sprintf("first difference at byte %d", i), "fork: ..."+clip(fo[lo:], 400), "ref:  ..."+clip(ro[lo:], 400))
		}
		res.Shape("tracer", k.name, k.cfg, shapeOf(fs.L))
	case "depth":
		// self-recursion to the call-depth limit by every call kind: what is (and is not) announced for the refused call
		f, kind := h.Fork(c.P[0]), byte(c.P[1])
		a := h.NewAsm().PushU(1).PushU(0).Op(h.SLOAD, h.ADD).PushU(0)
		if kind == h.STATICCALL {
			a.Op(h.POP, h.POP) // (no stores in a static context)
		} else {
			a.Op(h.SSTORE)
		}
		a.PushU(0).PushU(0).PushU(0).PushU(0)
		if kind == h.CALL || kind == h.CALLCODE {
			a.PushU(0)
		}
		a.Op(h.ADDRESS, h.GAS, kind, h.POP, h.STOP)
		dc := DualCase{World: h.BaseWorld([][]byte{a.Bytes()}), Env: h.EnvSpec{Fork: f}, Tx: h.TxSpec{Entry: h.ECall, From: h.Sender, To: h.ContractAddr(0), Gas: 20_000_000_000_000},
			Desc: fmt.Sprintf("self-recursion by %#x to the depth limit on %s", kind, f)}
		if fs, _, ok := dualStreams(&res, dc, false, "depth"); ok {
			res.Max("max_depth", int64(maxDepthOf(fs.L)))
			res.Shape("depth", f, kind, maxDepthOf(fs.L))
		}
		res.Evals = 1
	case "balance":
		runC18Balance(c, &res)
	case "ttree":
		r := h.NewRNG(c.Seed)
		sc := genScenario(r, scenOpts{FailPct: 40, ValuePct: 30, MinFork: h.Byzantium, MaxFork: h.Shanghai, MaxNodes: 9})
		dc := DualCase{World: sc.World, Env: h.EnvSpec{Fork: sc.Fork}, Tx: sc.Tx, Desc: sc.desc()}
		for ki, k := range pairedTracers {
			if k.name != "callTracer" && k.name != "flatCallTracer" && k.name != "prestateTracer" && k.name != "muxTracer" && k.name != "4byteTracer" {
				continue
			}
			fo, ro, err := runTracerPair(dc, k)
			if err != nil {
				res.Fail(Key("tracer-ctor", k.name), err.Error())
				continue
			}
			res.Count("tracer_pairs", 1)
			res.Count("tree_tracer_pairs", 1)
			res.Evals++
			if fo != ro {
				i := 0
				for i < len(fo) && i < len(ro) && fo[i] == ro[i] {
					i++
				}
				lo := i - 80
				if lo < 0 {
					lo = 0
				}
				res.Fail(Key("tracer-output", k.name, "tree"), fmt.Sprintf("%s %s output differs from upstream original on a call tree", k.name, k.cfg),
					dc.Desc, fmt.Sprintf("first difference at byte %d", i), "fork: ..."+clip(fo[lo:], 400), "ref:  ..."+clip(ro[lo:], 400))
			}
			res.Shape("ttree", ki, sc.desc())
		}
	}
	return
}

func maxDepthOf(l *h.Log) int {
	m := 0
	for i := range l.Events {
		if e := &l.Events[i]; e.K == h.KStep && e.Depth > m {
			m = e.Depth
		}
	}
	return m
}
