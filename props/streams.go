package props

import (
	"bytes"
	"fmt"

	h "verif/harness"
)

func bigEq(a, b interface{ String() string }) bool { return a.String() == b.String() }

// compareStreams compares the debug-tracer callback streams of the fork and the
// reference position by position. full=true also compares stack, memory,
// return data and frame arguments (C18); otherwise only gas-relevant fields (C02).
// Returns a description of the first divergence, or "".
func compareStreams(fl, rl *h.Log, full bool) (string, int) {
	fe := tracerEvents(fl)
	re := tracerEvents(rl)
	n := len(fe)
	if len(re) < n {
		n = len(re)
	}
	for i := 0; i < n; i++ {
		a, b := fe[i], re[i]
		if a.K != b.K {
			return fmt.Sprintf("callback %d: kind %s vs %s", i, a.K, b.K), a.Seq
		}
		switch a.K {
		case h.KStep, h.KFault:
			if a.PC != b.PC || a.Op != b.Op || a.Depth != b.Depth {
				return fmt.Sprintf("callback %d (%s): pc/op/depth %d/%#x/%d vs %d/%#x/%d", i, a.K, a.PC, a.Op, a.Depth, b.PC, b.Op, b.Depth), a.Seq
			}
			if a.Gas != b.Gas {
				return fmt.Sprintf("callback %d (%s pc=%d op=%#x): gas before %d vs %d", i, a.K, a.PC, a.Op, a.Gas, b.Gas), a.Seq
			}
			if a.Cost != b.Cost {
				return fmt.Sprintf("callback %d (%s pc=%d op=%#x): cost %d vs %d", i, a.K, a.PC, a.Op, a.Cost, b.Cost), a.Seq
			}
			if a.Err != b.Err {
				return fmt.Sprintf("callback %d (%s pc=%d op=%#x): error class %q vs %q", i, a.K, a.PC, a.Op, a.Err, b.Err), a.Seq
			}
			if full {
				if len(a.Stack) != len(b.Stack) {
					return fmt.Sprintf("callback %d (pc=%d op=%#x): stack depth %d vs %d", i, a.PC, a.Op, len(a.Stack), len(b.Stack)), a.Seq
				}
				for j := range a.Stack {
					if a.Stack[j] != b.Stack[j] {
						return fmt.Sprintf("callback %d (pc=%d op=%#x): stack[%d] %s vs %s", i, a.PC, a.Op, j, a.Stack[j].Hex(), b.Stack[j].Hex()), a.Seq
					}
				}
				if a.MemLen != b.MemLen || !bytes.Equal(a.Mem, b.Mem) || a.MemHash != b.MemHash {
					return fmt.Sprintf("callback %d (pc=%d op=%#x): memory differs (len %d vs %d)", i, a.PC, a.Op, a.MemLen, b.MemLen), a.Seq
				}
				if !bytes.Equal(a.RData, b.RData) {
					return fmt.Sprintf("callback %d (pc=%d op=%#x): return-data buffer %x vs %x", i, a.PC, a.Op, clipB(a.RData), clipB(b.RData)), a.Seq
				}
				if a.Addr != b.Addr || a.Code != b.Code {
					return fmt.Sprintf("callback %d (pc=%d op=%#x): contract address %s/%s vs %s/%s", i, a.PC, a.Op, a.Addr, a.Code, b.Addr, b.Code), a.Seq
				}
			}
		case h.KStart, h.KEnter:
			if a.Gas != b.Gas {
				return fmt.Sprintf("callback %d (%s): gas handed to frame %d vs %d", i, a.K, a.Gas, b.Gas), a.Seq
			}
			if a.Typ != b.Typ || a.Create != b.Create {
				return fmt.Sprintf("callback %d (%s): type %#x/%v vs %#x/%v", i, a.K, a.Typ, a.Create, b.Typ, b.Create), a.Seq
			}
			if full {
				if a.From != b.From || a.To != b.To {
					return fmt.Sprintf("callback %d (%s): from/to %s/%s vs %s/%s", i, a.K, a.From, a.To, b.From, b.To), a.Seq
				}
				if !bytes.Equal(a.Input, b.Input) {
					return fmt.Sprintf("callback %d (%s): input %x vs %x", i, a.K, clipB(a.Input), clipB(b.Input)), a.Seq
				}
				if (a.Value == nil) != (b.Value == nil) || (a.Value != nil && a.Value.Cmp(b.Value) != 0) {
					return fmt.Sprintf("callback %d (%s): value %v vs %v", i, a.K, a.Value, b.Value), a.Seq
				}
			}
		case h.KEnd, h.KExit:
			if a.GasUsed != b.GasUsed {
				return fmt.Sprintf("callback %d (%s): gasUsed %d vs %d", i, a.K, a.GasUsed, b.GasUsed), a.Seq
			}
			if a.Err != b.Err {
				return fmt.Sprintf("callback %d (%s): error class %q vs %q", i, a.K, a.Err, b.Err), a.Seq
			}
			if full && !bytes.Equal(a.Output, b.Output) {
				return fmt.Sprintf("callback %d (%s): output %x vs %x", i, a.K, clipB(a.Output), clipB(b.Output)), a.Seq
			}
		}
	}
	if len(fe) != len(re) {
		seq := 0
		if n > 0 {
			seq = fe[n-1].Seq
		}
		return fmt.Sprintf("callback count %d vs %d", len(fe), len(re)), seq
	}
	return "", 0
}

func clipB(b []byte) []byte {
	if len(b) > 40 {
		return b[:40]
	}
	return b
}

func tracerEvents(l *h.Log) []*h.Event {
	var out []*h.Event
	for i := range l.Events {
		switch l.Events[i].K {
		case h.KTxStart, h.KTxEnd, h.KStart, h.KEnd, h.KEnter, h.KExit, h.KStep, h.KFault:
			out = append(out, &l.Events[i])
		}
	}
	return out
}

// frame is a node of the frame tree reconstructed from a tracer stream.
type frame struct {
	enter, exit *h.Event // Start/Enter and End/Exit (exit may be nil when unbalanced)
	parent      *frame
	children    []*frame
	steps       []*h.Event // this frame's own Step events
	// index into the owning frame's steps of the step that issued this frame
	callerStep *h.Event
	depth      int
	selfd      bool
}

// buildFrames reconstructs the frame tree; returns the roots (one per
// top-level invocation) and a balance error description ("" if balanced).
func buildFrames(l *h.Log) (roots []*frame, unbalanced string) {
	var cur *frame
	var lastStep *h.Event
	for i := range l.Events {
		e := &l.Events[i]
		switch e.K {
		case h.KStart:
			if cur != nil {
				unbalanced = fmt.Sprintf("Start at seq %d while a frame is open", e.Seq)
			}
			f := &frame{enter: e, depth: 1}
			roots = append(roots, f)
			cur = f
			lastStep = nil
		case h.KEnter:
			f := &frame{enter: e, parent: cur, callerStep: lastStep}
			if cur != nil {
				f.depth = cur.depth + 1
				cur.children = append(cur.children, f)
			} else {
				unbalanced = fmt.Sprintf("Enter at seq %d outside any Start", e.Seq)
				roots = append(roots, f)
			}
			if e.Typ == h.SELFDESTRUCT {
				f.selfd = true
			}
			cur = f
		case h.KExit:
			if cur == nil || cur.enter.K != h.KEnter {
				unbalanced = fmt.Sprintf("Exit at seq %d without matching Enter", e.Seq)
				continue
			}
			cur.exit = e
			cur = cur.parent
		case h.KEnd:
			if cur == nil || cur.enter.K != h.KStart {
				unbalanced = fmt.Sprintf("End at seq %d without matching Start", e.Seq)
				continue
			}
			cur.exit = e
			cur = nil
		case h.KStep:
			if cur != nil {
				cur.steps = append(cur.steps, e)
			}
			lastStep = e
		case h.KReturn:
			if cur != nil {
				unbalanced = fmt.Sprintf("entry point returned at seq %d with a frame still open", e.Seq)
				cur = nil
			}
		}
	}
	if cur != nil && unbalanced == "" {
		unbalanced = "log ends with a frame open"
	}
	return
}

func isCallOp(op byte) bool {
	return op == h.CALL || op == h.CALLCODE || op == h.DELEGATECALL || op == h.STATICCALL
}
func isCreateOp(op byte) bool { return op == h.CREATE || op == h.CREATE2 }

// gasArithmetic checks the fork's own stream: within a frame
// gas[i+1] = gas[i] - cost[i] (+ what a nested frame handed back), and no frame
// uses more gas than it was given. aspects=true relaxes the equations around
// frames whose join points burned gas (handled by C06).
func gasArithmetic(l *h.Log) []string {
	var out []string
	roots, _ := buildFrames(l)
	var walk func(f *frame)
	walk = func(f *frame) {
		if f.exit != nil && f.enter != nil && !f.selfd {
			if f.exit.GasUsed > f.enter.Gas {
				out = append(out, fmt.Sprintf("frame entered at seq %d used %d gas but was given %d", f.enter.Seq, f.exit.GasUsed, f.enter.Gas))
			}
		}
		// map caller step -> child frame
		childOf := map[*h.Event]*frame{}
		for _, c := range f.children {
			if c.callerStep != nil && !c.selfd {
				childOf[c.callerStep] = c
			}
		}
		for i := 0; i+1 < len(f.steps); i++ {
			s, nx := f.steps[i], f.steps[i+1]
			if s.Err != "" {
				continue
			}
			want := s.Gas - s.Cost
			switch {
			case isCallOp(s.Op):
				c := childOf[s]
				if c == nil || c.exit == nil {
					continue // refused before a frame was entered: returned gas not derivable from the stream
				}
				want += c.enter.Gas - c.exit.GasUsed
			case isCreateOp(s.Op):
				c := childOf[s]
				if c == nil || c.exit == nil {
					continue
				}
				want -= c.exit.GasUsed
			}
			if nx.Gas != want {
				out = append(out, fmt.Sprintf("frame at seq %d: after pc=%d op=%#x gas=%d cost=%d expected next gas %d, saw %d (seq %d)", f.enter.Seq, s.PC, s.Op, s.Gas, s.Cost, want, nx.Gas, nx.Seq))
				break
			}
		}
		for _, c := range f.children {
			walk(c)
		}
	}
	for _, r := range roots {
		walk(r)
	}
	return out
}

// gasBounds checks, on the fork's own stream, that gas is never created: inside a frame the gas before
// consecutive instructions never increases (whatever a nested frame hands back was paid for by the calling
// instruction, the 2300 stipend included), and no frame is entered with more gas than the calling instruction had.
func gasBounds(l *h.Log) []string {
	var out []string
	roots, _ := buildFrames(l)
	var walk func(f *frame)
	walk = func(f *frame) {
		for i := 0; i+1 < len(f.steps); i++ {
			s, nx := f.steps[i], f.steps[i+1]
			if nx.Gas > s.Gas {
				out = append(out, fmt.Sprintf("frame at seq %d: gas rose from %d before pc=%d op=%#x (cost %d) to %d before the next instruction", f.enter.Seq, s.Gas, s.PC, s.Op, s.Cost, nx.Gas))
				break
			}
		}
		for _, c := range f.children {
			if c.callerStep != nil && c.enter != nil && !c.selfd && c.enter.Gas > c.callerStep.Gas {
				out = append(out, fmt.Sprintf("frame entered at seq %d with %d gas by an instruction (pc=%d op=%#x) that had only %d", c.enter.Seq, c.enter.Gas, c.callerStep.PC, c.callerStep.Op, c.callerStep.Gas))
			}
			walk(c)
		}
	}
	for _, r := range roots {
		walk(r)
	}
	return out
}
