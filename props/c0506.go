package props

import (
	"bytes"
	"fmt"
	"math/big"
	"strings"

	h "verif/harness"

	avm "github.com/artela-network/artela-evm/vm"
	atypes "github.com/artela-network/aspect-core/types"
	"github.com/ethereum/go-ethereum/common"
	evm "github.com/ethereum/go-ethereum/core/vm"
	"github.com/ethereum/go-ethereum/params"
)

// C05 — join points fire exactly once per contract call, nested, with that call's data.
// C06 — gas passes through join points without being created, lost or misreported.
// One parenthesis automaton over the total order of provider calls, Aspect enter/exit,
// Enter/Exit and Step events; payloads are read from the protobuf request handed to
// CaptureAspectEnter (so real WASM Aspects are bound).

type frameInfo struct {
	codeLen int
	jpOn    bool
	host    bool // entered while the host was inside a provider callback (re-entrant call)
	precomp bool // target is a precompile under the session's rules (reference table + Artela's 0x64-0x66 from Berlin)
}

// isPrecompileAddr decides independently of the code under test: go-ethereum v1.12.0's table for the
// rule set, plus the three Artela addresses from the Berlin rules on.
func isPrecompileAddr(rules params.Rules, a common.Address) bool {
	for _, p := range evm.ActivePrecompiles(rules) {
		if p == a {
			return true
		}
	}
	return rules.IsBerlin && a == common.BytesToAddress([]byte{a[19]}) && a[19] >= 100 && a[19] <= 102
}

type aspExec struct {
	enter, exit *h.Event
}

type jpFiring struct {
	ev          *h.Event
	stepsBefore int
	kidsBefore  int
	aspects     []*aspExec
	failed      bool
	errText     string
}

type jpFrame struct {
	enter, exit *h.Event
	parent      *jpFrame
	children    []*jpFrame
	firings     []*jpFiring
	nsteps      int
	first, last *h.Event // first / last Step of this frame
	lastFault   *h.Event
	info        frameInfo
	idx         int // shadow attempt index (-1: not an indexed frame)
	callLike    bool
	hostRoot    bool // the frame itself is the host's re-entrant call (its descendants are ordinary)
	pendingCall bool // the last instruction of this frame was a CALL that has not been followed by anything yet
	announcedAs byte // non-zero when a frame opened by a CALL instruction was announced as another call kind
}

// ownChildren counts the frames issued by this frame's own instructions (host re-entrant calls excluded).
func (f *jpFrame) ownChildren() int {
	n := 0
	for _, c := range f.children {
		if !c.info.host || c.parent == nil {
			n++
		} else if c.info.host && !c.hostRoot {
			n++
		}
	}
	return n
}

// jpMonitor collects per-frame info online (code size of the target and the enable flag at frame entry).
type jpMonitor struct {
	fs         *h.ForkSession
	info       map[int]frameInfo
	inCallback int
}

func attachJPMonitor(fs *h.ForkSession) *jpMonitor {
	m := &jpMonitor{fs: fs, info: map[int]frameInfo{}}
	prev := fs.L.OnAdd
	fs.L.OnAdd = func(e *h.Event) {
		if prev != nil {
			prev(e)
		}
		if e.K == h.KEnter || e.K == h.KStart {
			m.info[e.Seq] = frameInfo{codeLen: fs.DB.GetCodeSize(e.To), jpOn: fs.EVM.IsExecuteJP, host: m.inCallback > 0, precomp: isPrecompileAddr(fs.Rules, e.To)}
		}
	}
	return m
}

// frames rebuilds the frame tree with firings attached.
func (m *jpMonitor) frames(sh *shadowLog) (roots []*jpFrame, stray []string) {
	l := m.fs.L
	var cur *jpFrame
	var curFiring *jpFiring
	idxAtEnter := map[int]int{}
	for _, a := range sh.Attempts {
		if a.Entered {
			idxAtEnter[a.EnterSeq] = a.Index
		}
	}
	for i := range l.Events {
		e := &l.Events[i]
		switch e.K {
		case h.KStart, h.KEnter:
			f := &jpFrame{enter: e, parent: cur, info: m.info[e.Seq], idx: -1}
			if ix, ok := idxAtEnter[e.Seq]; ok {
				f.idx = ix
			}
			f.callLike = (e.K == h.KStart && !e.Create) || (e.K == h.KEnter && e.Typ == h.CALL)
			if e.K == h.KEnter && cur != nil && cur.last != nil && cur.last.Op == h.CALL && cur.pendingCall {
				// what counts is the instruction the program executed: a CALL is a message call however the VM announces it
				f.callLike = true
				if e.Typ != h.CALL {
					f.announcedAs = e.Typ
				}
			}
			if cur != nil {
				cur.pendingCall = false
			}
			f.hostRoot = f.info.host && (cur == nil || !cur.info.host)
			if cur != nil {
				cur.children = append(cur.children, f)
			} else {
				roots = append(roots, f)
			}
			cur = f
			curFiring = nil
		case h.KExit, h.KEnd:
			if cur != nil {
				cur.exit = e
				cur = cur.parent
			}
			curFiring = nil
		case h.KStep:
			if cur != nil {
				cur.nsteps++
				if cur.first == nil {
					cur.first = e
				}
				cur.last = e
				cur.pendingCall = e.Op == h.CALL && e.Err == ""
			}
			curFiring = nil
		case h.KFault:
			if cur != nil {
				cur.lastFault = e
			}
		case h.KProvider:
			fi := &jpFiring{ev: e}
			if e.ErrText != "" {
				fi.failed, fi.errText = true, e.ErrText
			}
			if cur == nil {
				stray = append(stray, fmt.Sprintf("provider firing %d (%s for %s) outside any frame", e.Firing, e.Pointcut, e.Addr.Hex()))
				continue
			}
			fi.stepsBefore, fi.kidsBefore = cur.nsteps, cur.ownChildren()
			cur.firings = append(cur.firings, fi)
			curFiring = fi
		case h.KAspectEnter:
			if cur == nil || len(cur.firings) == 0 {
				stray = append(stray, fmt.Sprintf("Aspect execution at seq %d without a provider firing", e.Seq))
				continue
			}
			fi := cur.firings[len(cur.firings)-1]
			fi.aspects = append(fi.aspects, &aspExec{enter: e})
			_ = curFiring
		case h.KAspectExit:
			if cur == nil || len(cur.firings) == 0 {
				continue
			}
			fi := cur.firings[len(cur.firings)-1]
			if n := len(fi.aspects); n > 0 && fi.aspects[n-1].exit == nil {
				fi.aspects[n-1].exit = e
				if e.ErrVal != nil {
					fi.failed, fi.errText = true, e.ErrText
				}
			}
		}
	}
	return
}

func isPreCut(s string) bool { return s == string(atypes.PRE_CONTRACT_CALL_METHOD) }

func bigBytesEq(b []byte, v *big.Int) bool {
	if v == nil {
		v = new(big.Int)
	}
	return new(big.Int).SetBytes(b).Cmp(v) == 0
}

// calleeEnd derives, from the frame's own last instruction, the gas the callee ended with and what it returned.
func calleeEnd(f *jpFrame) (gas uint64, ret []byte, errText string, ok bool) {
	s := f.last
	if s == nil {
		return 0, nil, "", false
	}
	if s.Err == "stack_underflow" || s.Err == "stack_overflow" {
		// the instruction was refused before anything was charged: the frame halts holding what it had
		return s.Gas, nil, "exceptional halt: " + s.Err, true
	}
	if s.Err != "" {
		return 0, nil, "", false
	}
	if f.lastFault != nil && f.lastFault.Seq > s.Seq && f.lastFault.PC == s.PC && f.lastFault.Err == "invalid_opcode" {
		// an undefined instruction charges nothing: the frame halts holding what it had
		return s.Gas, nil, "exceptional halt: invalid opcode", true
	}
	switch s.Op {
	case h.STOP:
		return s.Gas - s.Cost, nil, "", true
	case h.RETURN, h.REVERT:
		n := len(s.Stack)
		if n < 2 {
			return 0, nil, "", false
		}
		out, okm := memSlice(s, s.Stack[n-1].Uint64(), s.Stack[n-2].Uint64())
		if !okm {
			return 0, nil, "", false
		}
		et := ""
		if s.Op == h.REVERT {
			et = avm.ErrExecutionReverted.Error()
		}
		return s.Gas - s.Cost, out, et, true
	}
	return 0, nil, "", false
}

type jpCheckOpts struct {
	benign   bool         // no injected failure, all bound Aspects benign: join points must succeed
	failedAt map[int]bool // firings at which a failure was injected
	plan     *h.AspectPlan
}

// checkJoinPoints applies the C05 (rule prefix c05) and C06 (c06) oracles to one run.
func checkJoinPoints(res *CaseResult, which string, m *jpMonitor, sh *shadowLog, desc, label string, o jpCheckOpts) {
	roots, stray := m.frames(sh)
	debugIndexDump = func() []string {
		var out []string
		for _, a := range sh.Attempts {
			to := "create"
			if a.To != nil {
				to = a.To.Hex()[36:]
			}
			out = append(out, fmt.Sprintf("shadow #%d parent=%d op=%#x %s->%s stepSeq=%d enterSeq=%d entered=%v host=%v", a.Index, a.Parent, a.Op, a.From.Hex()[36:], to, a.StepSeq, a.EnterSeq, a.Entered, a.HostCall))
		}
		ct := m.fs.EVM.Tracer().CallTree()
		for i := uint64(0); ; i++ {
			c := ct.FindCall(i)
			if c == nil {
				break
			}
			to := "create"
			if c.To != nil {
				to = c.To.Hex()[36:]
			}
			out = append(out, fmt.Sprintf("tree   #%d parent=%d %s->%s", i, c.ParentIndex(), c.From.Hex()[36:], to))
		}
		return out
	}
	fail := func(prop, rule, msg string, det ...string) {
		if prop != which {
			return
		}
		res.Fail(Key(rule, label), msg, append([]string{desc, label}, det...)...)
	}
	for _, s := range stray {
		fail("C05", "stray-firing", "join point activity outside any call frame: "+s)
	}
	var walk func(f *jpFrame)
	walk = func(f *jpFrame) {
		for _, c := range f.children {
			walk(c)
		}
		if f.exit == nil {
			return
		}
		expected := f.callLike && f.info.codeLen > 0 && f.info.jpOn && !f.info.precomp
		where := fmt.Sprintf("frame %s", f.enter.Short())
		if which == "C06" {
			checkReportedGas(res, fail, m, f, sh, where, expected)
		}
		if !expected {
			if len(f.firings) > 0 {
				why := "not a message call that runs contract code"
				if !f.info.jpOn {
					why = "join points were switched off"
				} else if f.callLike && f.info.codeLen == 0 {
					why = "target has no code"
				} else if f.info.precomp {
					why = "target is a precompile"
				}
				fail("C05", "unexpected-firing", fmt.Sprintf("%d join point firing(s) for a frame where none may run (%s)", len(f.firings), why), where, f.firings[0].ev.Short())
			}
			if which == "C05" {
				res.Count("frames_without_jp_checked", 1)
			}
			return
		}
		res.Count("jp_frames_checked", 1)
		if len(f.firings) == 0 {
			fail("C05", "missing-pre", "a contract call ran code without its pre-call join point", where)
			return
		}
		pre := f.firings[0]
		if !isPreCut(pre.ev.Pointcut) || pre.ev.Addr != f.enter.To {
			fail("C05", "wrong-first-firing", fmt.Sprintf("first firing of the frame is %s for %s, expected the pre-call join point of %s", pre.ev.Pointcut, pre.ev.Addr.Hex(), f.enter.To.Hex()), where)
		}
		if pre.stepsBefore != 0 || pre.kidsBefore != 0 {
			fail("C05", "pre-late", "pre-call join point fired after the callee had started", where)
		}
		if pre.failed {
			if which == "C05" {
				res.Count("failed_pre_checked", 1)
			}
			if f.nsteps > 0 {
				fail("C05", "code-after-failed-pre", fmt.Sprintf("the callee executed %d instructions although its pre-call join point failed (%s)", f.nsteps, pre.errText), where)
			}
			if len(f.firings) > 1 {
				fail("C05", "post-after-failed-pre", "a join point fired after the pre-call join point failed", where, f.firings[1].ev.Short())
			}
			if o.benign && !isOOGText(pre.errText) {
				fail("C05", "jp-failed-unexpectedly", "pre-call join point failed although nothing was injected and the bound Aspects are benign: "+classifyJPErr(pre.errText), where, fmt.Sprintf("calldata length %d (nil=%v)", len(f.enter.Input), f.enter.Input == nil))
			}
			if f.exit.ErrVal == nil {
				fail("C05", "failed-pre-success", "frame succeeded although its pre-call join point failed", where)
			}
		} else {
			if f.nsteps == 0 {
				fail("C05", "no-code-after-pre", "pre-call join point succeeded but the callee's code did not run", where)
			}
			if len(f.firings) < 2 {
				fail("C05", "missing-post", "a contract call ran code without its post-call join point", where)
			} else {
				post := f.firings[1]
				if isPreCut(post.ev.Pointcut) || post.ev.Addr != f.enter.To {
					fail("C05", "wrong-second-firing", fmt.Sprintf("second firing of the frame is %s for %s, expected the post-call join point of %s", post.ev.Pointcut, post.ev.Addr.Hex(), f.enter.To.Hex()), where)
				}
				if post.stepsBefore != f.nsteps || post.kidsBefore != f.ownChildren() {
					fail("C05", "post-early", "post-call join point fired before the callee's last instruction / before a nested call returned (not last-in-first-out)", where)
				}
				if len(f.firings) > 2 {
					fail("C05", "extra-firing", fmt.Sprintf("%d firings for one call (expected one pre and one post)", len(f.firings)), where, f.firings[2].ev.Short())
				}
				if post.failed && o.benign && !isOOGText(post.errText) { // (a frame may legitimately have too little gas left for its Aspects)
					fail("C05", "jp-failed-unexpectedly", "post-call join point failed although nothing was injected and the bound Aspects are benign: "+classifyJPErr(post.errText), where)
				}
			}
		}
		// number and order of Aspect executions per firing
		for fi, fr := range f.firings {
			var bound []h.Binding
			if o.plan != nil {
				if isPreCut(fr.ev.Pointcut) {
					bound = o.plan.Pre[fr.ev.Addr]
				} else {
					bound = o.plan.Post[fr.ev.Addr]
				}
			}
			if fr.ev.ErrText != "" {
				bound = nil
			}
			if len(fr.aspects) > len(bound) {
				fail("C05", "aspect-count", fmt.Sprintf("%d Aspect executions for a join point with %d Aspects bound", len(fr.aspects), len(bound)), where)
			}
			for ai, ax := range fr.aspects {
				if ai < len(bound) && ax.enter.AspectID != bound[ai].AspectID {
					fail("C05", "aspect-order", "Aspects ran in a different order than bound", where)
				}
				if ax.exit == nil {
					fail("C05", "aspect-unclosed", "Aspect execution without exit", where)
					continue
				}
				if !fr.failed && ai == len(fr.aspects)-1 && len(fr.aspects) != len(bound) {
					fail("C05", "aspect-count", fmt.Sprintf("%d of %d bound Aspects ran although none failed", len(fr.aspects), len(bound)), where)
				}
				// payload
				checkPayload(res, which, fail, f, fi, ax, where)
			}
		}
		// ---- C06: gas conservation through the join points of this frame
		if which == "C06" {
			checkFrameGas(res, fail, f, sh, where)
		}
	}
	for _, r := range roots {
		walk(r)
	}
}

func classifyJPErr(s string) string {
	if len(s) > 90 {
		return s[:90]
	}
	return s
}

var debugIndexDump = func() []string { return nil }

func checkPayload(res *CaseResult, which string, fail func(prop, rule, msg string, det ...string), f *jpFrame, fi int, ax *aspExec, where string) {
	if which != "C05" || ax.enter.Req == nil {
		return
	}
	e := ax.enter
	var from, to, data, value []byte
	var index, gas *uint64
	var ret []byte
	var errS *string
	isPost := false
	switch r := e.Req.(type) {
	case *atypes.PreContractCallInput:
		if r.Call == nil {
			fail("C05", "payload-empty", "pre-call payload has no call message", where)
			return
		}
		from, to, data, value, index, gas = r.Call.From, r.Call.To, r.Call.Data, r.Call.Value, r.Call.Index, r.Call.Gas
	case *atypes.PostContractCallInput:
		if r.Call == nil {
			fail("C05", "payload-empty", "post-call payload has no call message", where)
			return
		}
		isPost = true
		from, to, data, value, index, gas, ret, errS = r.Call.From, r.Call.To, r.Call.Data, r.Call.Value, r.Call.Index, r.Call.Gas, r.Call.Ret, r.Call.Error
	default:
		return
	}
	res.Count("payloads_checked", 1)
	kind := "pre"
	if isPost {
		kind = "post"
	}
	if !bytes.Equal(from, f.enter.From[:]) || !bytes.Equal(to, f.enter.To[:]) {
		fail("C05", "payload-parties-"+kind, fmt.Sprintf("%s join point received from/to %x/%x, the call is %s -> %s", kind, from, to, f.enter.From.Hex(), f.enter.To.Hex()), where)
	}
	if !bytes.Equal(data, f.enter.Input) {
		fail("C05", "payload-data-"+kind, fmt.Sprintf("%s join point received calldata %x, the call's calldata is %x", kind, clipB(data), clipB(f.enter.Input)), where)
	}
	if !bigBytesEq(value, f.enter.Value) {
		fail("C05", "payload-value-"+kind, fmt.Sprintf("%s join point received value %x, the call's value is %v", kind, value, f.enter.Value), where)
	}
	if f.idx >= 0 && (index == nil || *index != uint64(f.idx)) {
		got := "nil"
		if index != nil {
			got = fmt.Sprint(*index)
		}
		fail("C05", "payload-index-"+kind, fmt.Sprintf("%s join point received call index %s, the call is #%d in the call tree", kind, got, f.idx), append([]string{where}, debugIndexDump()...)...)
	}
	if e.From != f.enter.From || e.To != f.enter.To || !bytes.Equal(e.Input, f.enter.Input) {
		fail("C05", "logger-args-"+kind, "CaptureAspectEnter was told a different from/to/input than the call's", where)
	}
	if !isPost {
		if gas == nil || *gas != f.enter.Gas {
			fail("C05", "payload-gas-pre", fmt.Sprintf("pre join point received gas %v, the call was given %d", gas, f.enter.Gas), where)
		}
		return
	}
	if endGas, endRet, endErr, ok := calleeEnd(f); ok {
		if gas == nil || *gas != endGas {
			fail("C05", "payload-gas-post", fmt.Sprintf("post join point received gas %v, the callee ended with %d", gas, endGas), where)
		}
		if !bytes.Equal(ret, endRet) {
			fail("C05", "payload-ret", fmt.Sprintf("post join point received return data %x, the callee returned %x", clipB(ret), clipB(endRet)), where)
		}
		got := ""
		if errS != nil {
			got = *errS
		}
		if strings.HasPrefix(endErr, "exceptional halt") {
			if got == "" {
				fail("C05", "payload-error", "post join point received no error although the callee halted exceptionally", where)
			}
		} else if got != endErr {
			fail("C05", "payload-error", fmt.Sprintf("post join point received error %q, the callee ended with %q", got, endErr), where)
		}
		res.Count("post_payloads_with_outcome_checked", 1)
	} else if f.lastFault != nil || (f.last != nil && f.last.Err != "") {
		got := ""
		if errS != nil {
			got = *errS
		}
		if got == "" {
			fail("C05", "payload-error", "post join point received no error although the callee halted exceptionally", where)
		}
		if len(ret) != 0 {
			fail("C05", "payload-ret", fmt.Sprintf("post join point received return data %x for a callee that halted exceptionally (it returned nothing)", clipB(ret)), where)
		}
	}
}

// checkReportedGas applies to EVERY frame, join points or not: what the frame hands back never exceeds what it was
// given; a frame no join point surrounds hands back exactly what its own code left (0 on an exceptional halt); and
// the call tree reports as the frame's remaining gas exactly what the caller received.
func checkReportedGas(res *CaseResult, fail func(prop, rule, msg string, det ...string), m *jpMonitor, f *jpFrame, sh *shadowLog, where string, surrounded bool) {
	if f.idx < 0 || f.idx >= len(sh.Attempts) {
		return
	}
	att := sh.Attempts[f.idx]
	if !att.LeftOK {
		return
	}
	if att.Left > f.enter.Gas {
		fail("C06", "returns-more-than-given", fmt.Sprintf("frame handed back %d gas of %d given", att.Left, f.enter.Gas), where)
	}
	if node := m.fs.EVM.Tracer().CallTree().FindCall(uint64(f.idx)); node != nil {
		res.Count("reported_gas_checked", 1)
		if node.RemainingGas != att.Left {
			fail("C06", "misreported-remaining-gas", fmt.Sprintf("the call tree reports %d gas remaining for a frame that handed %d back to its caller", node.RemainingGas, att.Left), where)
		}
	}
	if !surrounded && f.callLike && len(f.firings) == 0 && f.nsteps > 0 {
		if endGas, _, endErr, ok := calleeEnd(f); ok {
			want := endGas
			if endErr != "" && endErr != avm.ErrExecutionReverted.Error() {
				want = 0
			}
			res.Count("plain_frame_gas_checked", 1)
			if att.Left != want {
				fail("C06", "plain-frame-gas", fmt.Sprintf("a frame no join point surrounds handed back %d gas although its code ended with %d", att.Left, endGas), where)
			}
		}
	}
}

// checkFrameGas: conservation through the pre and post join points of one frame.
func checkFrameGas(res *CaseResult, fail func(prop, rule, msg string, det ...string), f *jpFrame, sh *shadowLog, where string) {
	res.Count("gas_frames_checked", 1)
	var att *attempt
	if f.idx >= 0 && f.idx < len(sh.Attempts) {
		att = sh.Attempts[f.idx]
	}
	chain := func(fr *jpFiring, start uint64) (left uint64, burned uint64, ok bool) {
		g := start
		for _, ax := range fr.aspects {
			if ax.exit == nil {
				return 0, 0, false
			}
			if ax.enter.Gas != g {
				fail("C06", "aspect-gas-in", fmt.Sprintf("an Aspect was given %d gas, the join point had %d at that moment", ax.enter.Gas, g), where)
				return 0, 0, false
			}
			if ax.exit.ResGas > ax.enter.Gas {
				fail("C06", "aspect-gas-created", fmt.Sprintf("an Aspect reported %d gas left of %d given", ax.exit.ResGas, ax.enter.Gas), where)
				return 0, 0, false
			}
			burned += ax.enter.Gas - ax.exit.ResGas
			g = ax.exit.ResGas
		}
		return g, burned, true
	}
	if len(f.firings) == 0 {
		return
	}
	pre := f.firings[0]
	afterPre, preBurn, ok := chain(pre, f.enter.Gas)
	if !ok {
		return
	}
	res.Count("aspect_gas_burned", int64(preBurn))
	leftKnown := att != nil && att.LeftOK
	if pre.failed {
		if leftKnown {
			res.Count("failed_jp_gas_checked", 1)
			if att.Left > f.enter.Gas {
				fail("C06", "returns-more-than-given", fmt.Sprintf("frame handed back %d gas of %d given", att.Left, f.enter.Gas), where)
			}
			if isOOGText(pre.errText) {
				if f.exit.ErrVal != avm.ErrOutOfGas {
					fail("C06", "oog-not-normalised-pre", fmt.Sprintf("a pre join point that ran out of gas surfaced as %v (%T), not the EVM's out-of-gas error", f.exit.ErrVal, f.exit.ErrVal), where)
				}
				if att.Left != 0 {
					fail("C06", "oog-returns-gas-pre", fmt.Sprintf("pre join point ran out of gas but %d gas was handed back", att.Left), where)
				}
			}
		}
		return
	}
	if f.first != nil && f.first.Gas != afterPre {
		fail("C06", "callee-start-gas", fmt.Sprintf("callee started with %d gas; it was given %d and the pre join point burned %d (expected %d)", f.first.Gas, f.enter.Gas, preBurn, afterPre), where)
	}
	if len(f.firings) < 2 {
		return
	}
	post := f.firings[1]
	endGas, _, endErr, endOK := calleeEnd(f)
	var afterPost uint64
	if endOK {
		var postBurn uint64
		var ok2 bool
		afterPost, postBurn, ok2 = chain(post, endGas)
		if !ok2 {
			return
		}
		res.Count("aspect_gas_burned", int64(postBurn))
	}
	if !leftKnown {
		return
	}
	if att.Left > f.enter.Gas {
		fail("C06", "returns-more-than-given", fmt.Sprintf("frame handed back %d gas of %d given", att.Left, f.enter.Gas), where)
	}
	switch {
	case post.failed && isOOGText(post.errText):
		res.Count("failed_jp_gas_checked", 1)
		if f.exit.ErrVal != avm.ErrOutOfGas {
			fail("C06", "oog-not-normalised-post", fmt.Sprintf("a post join point that ran out of gas surfaced as %v (%T), not the EVM's out-of-gas error", f.exit.ErrVal, f.exit.ErrVal), where)
		}
		if att.Left != 0 {
			fail("C06", "oog-returns-gas-post", fmt.Sprintf("post join point ran out of gas but %d gas was handed back", att.Left), where)
		}
	case post.failed:
		res.Count("failed_jp_gas_checked", 1)
		if f.exit.ErrVal == nil {
			fail("C06", "post-failure-swallowed", "post join point failed but the frame reported success", where)
		} else if post.errText != avm.ErrExecutionReverted.Error() && att.Left != 0 {
			// whatever the callee itself did (it may have reverted), a non-revert failure of the post join point forfeits the frame's gas
			fail("C06", "post-failure-keeps-gas", fmt.Sprintf("post join point failed with %q (not a revert) but %d gas was handed back", post.errText, att.Left), where)
		}
	case endOK:
		want := afterPost
		if endErr != "" && endErr != avm.ErrExecutionReverted.Error() {
			want = 0
		}
		res.Count("handback_equations_checked", 1)
		if att.Left != want {
			fail("C06", "handed-back-gas", fmt.Sprintf("caller got back %d gas; the callee ended with %d and the post join point left %d", att.Left, endGas, afterPost), where)
		}
	}
}

func isOOGText(s string) bool { return s == avm.ErrOutOfGas.Error() }

// ---- workloads

func jpScenario(seed uint64) (*scenario, *h.RNG) {
	r := h.NewRNG(seed)
	sc := genScenario(r, scenOpts{FailPct: 20, ValuePct: 40, Kinds: []byte{h.CALL, h.CALL, h.CALL, h.CALL, h.CALL, h.DELEGATECALL, h.CALLCODE, h.STATICCALL, h.CREATE, h.CREATE2},
		CDLens: []int{0, 0, 1, 4, 31, 32, 33, 1000}, NoOOG: false})
	return sc, r
}

type jpRun struct {
	fs *h.ForkSession
	m  *jpMonitor
	sh *shadowLog
	ir h.InvokeResult
}

func runJP(sc *scenario, plan *h.AspectPlan, jp bool, tweak func(fs *h.ForkSession)) jpRun {
	return runJPm(sc, plan, jp, func(fs *h.ForkSession, m *jpMonitor) {
		if tweak != nil {
			tweak(fs)
		}
	})
}

func runJPm(sc *scenario, plan *h.AspectPlan, jp bool, tweak func(fs *h.ForkSession, m *jpMonitor)) jpRun {
	fs := h.NewForkSession(sc.World, h.EnvSpec{Fork: sc.Fork}, h.ForkOpts{Debug: true, RecSteps: true, JoinPoints: jp, Plan: plan})
	m := attachJPMonitor(fs)
	if tweak != nil {
		tweak(fs, m)
	}
	ir := fs.Invoke(sc.Tx)
	r := jpRun{fs: fs, m: m, ir: ir}
	if ir.Panic == "" {
		r.sh = buildShadow(fs.L, fs.Rules.IsEIP150)
	}
	return r
}

func jpWorkload(c Case, which string, res *CaseResult) {
	sc, r := jpScenario(c.Seed)
	desc := sc.desc()
	evals := int64(0)
	check := func(jr jpRun, label string, o jpCheckOpts) {
		evals++
		res.Count("runs", 1)
		if jr.ir.Panic != "" {
			res.Fail(Key("panic", label), "panic escaped the entry point: "+firstLine(jr.ir.Panic), desc, clip(jr.ir.PanicStk, 1500))
			return
		}
		checkJoinPoints(res, which, jr.m, jr.sh, desc, label, o)
		res.Shape(label, shapeOf(jr.fs.L))
	}
	// 1. nothing bound, join points on: every firing answered with no Aspects
	none := &h.AspectPlan{Pre: map[common.Address][]h.Binding{}, Post: map[common.Address][]h.Binding{}, FailAt: map[int]error{}}
	check(runJP(sc, none, true, nil), "unbound", jpCheckOpts{benign: true, plan: none})
	// 2. join points off
	check(runJP(sc, none, false, nil), "disabled", jpCheckOpts{plan: none})
	// 3. benign Aspects bound (0..3 per join point)
	plan := bindPlan(r, sc, 60, []uint32{0, 10, 1000}, 0)
	base := runJP(sc, plan, true, nil)
	check(base, "bound", jpCheckOpts{benign: true, plan: plan})
	// 4. fault enumeration: every firing position x error kind
	for _, f := range firingsOf(base.fs.L) {
		for kind := 0; kind < 4; kind++ {
			if !quickSel(c.Seed, f.idx, kind) {
				continue
			}
			p := clonePlan(plan)
			p.FailAt[f.idx] = injectedErr(kind)
			pp := "pre"
			if f.pointcut == string(atypes.POST_CONTRACT_CALL_METHOD) {
				pp = "post"
			}
			check(runJP(sc, p, true, nil), "fail-"+pp+"-"+injectedErrNames[kind], jpCheckOpts{plan: p})
			res.Count("jp_failures_injected", 1)
		}
	}
	// 5. real failing Aspects: traps and gas exhaustion
	for v := 0; v < 2; v++ {
		p := bindPlan(h.NewRNG(c.Seed^uint64(v+11)), sc, 50, []uint32{10, 100_000_000}, 30)
		check(runJP(sc, p, true, nil), "wasm-failures", jpCheckOpts{plan: p})
	}
	// 6. the enable flag toggled from inside a provider callback that re-enters the same EVM
	var fsRef *h.ForkSession
	var mon6 *jpMonitor
	reentered := 0
	p6 := clonePlan(plan)
	p6.OnFiring = func(x *h.Exec, firing int, contract common.Address, pointcut string) {
		if fsRef == nil || reentered >= 3 || firing%2 != int(c.Seed%2) || fsRef.EVM.VerifDepth() == 0 {
			// (at depth 0 the VM announces a re-entrant call with Start/End like a new transaction; hosts re-enter from inside Aspects of nested calls)
			return
		}
		reentered++
		evm := fsRef.EVM
		evm.CloseAspectCall()
		before := x.Firings
		target := h.ContractAddr(int(c.Seed>>4) % sc.NContract)
		if fsRef.Rules.IsBerlin {
			fsRef.DB.AddAddressToAccessList(target) // what the CALL instruction's gas function does for an in-VM call
		}
		mon6.inCallback++
		evm.Call(fsRef.Ctx, avm.AccountRef(h.Sender), target, []byte{0}, 100000, new(big.Int))
		mon6.inCallback--
		if x.Firings != before {
			res.Fail(Key("firing-while-disabled", "reentrant"), "a join point fired during a call made with join points switched off", desc)
		}
		evm.AspectCall()
	}
	jr6 := runJPm(sc, p6, true, func(fs *h.ForkSession, m *jpMonitor) { fsRef, mon6 = fs, m })
	res.Count("reentrant_calls", int64(reentered))
	check(jr6, "reentrant-toggle", jpCheckOpts{plan: p6})
	// 7. flag toggled between top-level calls on one EVM
	fs7 := h.NewForkSession(sc.World, h.EnvSpec{Fork: sc.Fork}, h.ForkOpts{Debug: true, RecSteps: true, JoinPoints: true, Plan: plan})
	m7 := attachJPMonitor(fs7)
	ok7 := true
	for k := 0; k < 3 && ok7; k++ {
		fs7.EVM.IsExecuteJP = k != 1
		if ir := fs7.Invoke(sc.Tx); ir.Panic != "" {
			ok7 = false
		}
	}
	if ok7 {
		check(jpRun{fs: fs7, m: m7, sh: buildShadow(fs7.L, fs7.Rules.IsEIP150)}, "toggle-between-calls", jpCheckOpts{plan: plan})
	}
	// 8. a callee that ends with EXACTLY zero gas left (and with 1, 2): the post join point still fires once
	{
		callee := h.NewAsm().PushU(uint64(1 + c.Seed%7)).PushU(0).Op(h.MSTORE)
		if c.Seed%2 == 0 {
			callee.PushU(32).PushU(0).Op(h.RETURN)
		} else {
			callee.Op(h.STOP)
		}
		mk := func(g uint64) *scenario {
			caller := h.NewAsm().PushU(1).PushU(0).Op(h.MSTORE8)
			caller.PushU(32).PushU(0x40).PushU(1).PushU(0).PushU(0).PushAddr(h.ContractAddr(1)).PushU(g).Op(h.CALL).PushU(1).Op(h.SSTORE, h.STOP)
			w := h.BaseWorld([][]byte{caller.Bytes(), callee.Bytes()})
			return &scenario{Fork: sc.Fork, NContract: 2, World: w, Tx: h.TxSpec{Entry: h.ECall, From: h.Sender, To: h.ContractAddr(0), Input: []byte{9}, Gas: 500000, Value: new(big.Int)}}
		}
		probe := runJP(mk(100000), none, true, nil)
		var used uint64
		if probe.ir.Panic == "" {
			roots, _ := probe.m.frames(probe.sh)
			if len(roots) == 1 && len(roots[0].children) == 1 {
				ch := roots[0].children[0]
				if g, _, _, ok := calleeEnd(ch); ok && ch.first != nil {
					used = ch.first.Gas - g
				}
			}
		}
		if used > 0 {
			pl := &h.AspectPlan{Pre: map[common.Address][]h.Binding{}, Post: map[common.Address][]h.Binding{}, FailAt: map[int]error{}}
			var id common.Address
			id[0], id[19] = 0xa5, 0x77
			pl.Post[h.ContractAddr(1)] = []h.Binding{{AspectID: id, Loops: 0}}
			for _, extra := range []uint64{0, 1, 2} {
				pp := none
				if extra > 0 {
					pp = pl // (an Aspect needs gas of its own; with 0 left only the firing itself is asserted)
				}
				jr := runJP(mk(used+extra), pp, true, nil)
				check(jr, fmt.Sprintf("exact-gas+%d", extra), jpCheckOpts{plan: pp})
				res.Count("exact_gas_runs", 1)
			}
		}
	}
	// 9. a callee whose instruction right after a nested CALL (that returned data) fails before executing
	//    (stack underflow / out of gas on its own charge): the post join point must see NO return data
	{
		child := h.NewAsm().Push(h.U(0xc0ffee)).PushU(0).Op(h.MSTORE).PushU(32).PushU(0).Op(h.RETURN)
		mid := h.NewAsm()
		mid.PushU(32).PushU(0).PushU(0).PushU(0).PushU(0).PushAddr(h.ContractAddr(2))
		if c.Seed%2 == 0 {
			mid.PushU(30000).Op(h.CALL, h.ADD) // ADD with one item on the stack: underflow
		} else {
			mid.Op(h.GAS, h.CALL, h.POP).PushU(1).PushU(1).Op(h.SSTORE) // all but 1/64 forwarded: little is left afterwards
		}
		mid.Op(h.STOP)
		top := h.NewAsm().PushU(0).PushU(0).PushU(1).PushU(0).PushU(0).PushAddr(h.ContractAddr(1)).PushU(uint64(40000+c.Seed%1000)).Op(h.CALL).PushU(1).Op(h.SSTORE, h.STOP)
		w := h.BaseWorld([][]byte{top.Bytes(), mid.Bytes(), child.Bytes()})
		fork := sc.Fork
		if fork < h.Tangerine {
			fork = h.Byzantium
		}
		s9 := &scenario{Fork: fork, NContract: 3, World: w, Tx: h.TxSpec{Entry: h.ECall, From: h.Sender, To: h.ContractAddr(0), Input: []byte{7}, Gas: 400000, Value: new(big.Int)}}
		pl := &h.AspectPlan{Pre: map[common.Address][]h.Binding{}, Post: map[common.Address][]h.Binding{}, FailAt: map[int]error{}}
		var id common.Address
		id[0], id[19] = 0xa5, 0x79
		pl.Post[h.ContractAddr(1)] = []h.Binding{{AspectID: id, Loops: 0}}
		check(runJP(s9, pl, true, nil), "fault-after-call", jpCheckOpts{plan: pl})
		res.Count("fault_after_call_runs", 1)
	}
	// 10. gas allowances far beyond any block limit (and beyond what an Aspect runtime accepts for one execution):
	//     with nothing bound the gas still passes through both join points unchanged
	{
		callee := h.NewAsm().PushU(1).PushU(0).Op(h.MSTORE).PushU(32).PushU(0).Op(h.RETURN)
		inner := h.NewAsm().PushU(32).PushU(0).PushU(0).PushU(0).PushU(0).PushAddr(h.ContractAddr(2)).Op(h.GAS, h.CALL).PushU(1).Op(h.SSTORE, h.STOP)
		top := h.NewAsm().PushU(32).PushU(0).PushU(0).PushU(0).PushU(0).PushAddr(h.ContractAddr(1)).Op(h.GAS, h.CALL).PushU(1).Op(h.SSTORE, h.GAS).PushU(2).Op(h.SSTORE, h.STOP)
		w := h.BaseWorld([][]byte{top.Bytes(), inner.Bytes(), callee.Bytes()})
		fork := sc.Fork
		if fork < h.Tangerine {
			fork = h.Byzantium
		}
		gases := []uint64{9223372036854775, 9223372036854775 + 1 + c.Seed%1000000, 1 << 62, 1 << 63, ^uint64(0)}
		g := gases[int(c.Seed%uint64(len(gases)))]
		s10 := &scenario{Fork: fork, NContract: 3, World: w, Tx: h.TxSpec{Entry: h.ECall, From: h.Sender, To: h.ContractAddr(0), Input: []byte{7}, Gas: g, Value: new(big.Int)}}
		jr := runJP(s10, none, true, nil)
		check(jr, "huge-gas", jpCheckOpts{benign: true, plan: none})
		if jr.ir.Panic == "" {
			// the whole transaction is three tiny frames: it cannot have used more than 200000 gas
			if jr.ir.Err != nil || g-jr.ir.Gas > 200000 {
				res.Fail(Key("gas-lost", "huge-gas"), fmt.Sprintf("transaction given %d gas ended with %d left (err=%v): gas disappeared at a join point", g, jr.ir.Gas, jr.ir.Err), s10.desc())
			}
		}
		res.Count("huge_gas_runs", 1)
	}
	// 11. contract code planted at every precompile address (standard 0x01-0x09, Artela 0x64-0x66) with Aspects bound
	//     to those addresses: where the address is a precompile under the fork's rules no join point may run and the
	//     precompile answers; where it is not (yet), the planted code is an ordinary contract and gets both join points
	{
		fork := h.Fork((c.Seed >> 3) % uint64(h.Cancun+1))
		planted := h.NewAsm().PushU(0x7e57).PushU(0).Op(h.MSTORE).PushU(32).PushU(0).Op(h.RETURN).Bytes()
		top := h.NewAsm()
		pl := &h.AspectPlan{Pre: map[common.Address][]h.Binding{}, Post: map[common.Address][]h.Binding{}, FailAt: map[int]error{}}
		var addrs []common.Address
		for _, b := range []byte{1, 2, 3, 4, 5, 6, 7, 8, 9, 0x0a, 0x64, 0x65, 0x66, 0x67} {
			addrs = append(addrs, common.BytesToAddress([]byte{b}))
		}
		nPlanted := len(addrs)
		// code-less accounts of every flavour (funded, with a nonce, empty, missing, funded by this very call): no join
		// point runs for them although Aspects are bound to their addresses
		addrs = append(addrs, h.EOARich, h.EOAPoor, h.EmptyAcct, h.Nobody, common.BytesToAddress([]byte{0xd1, byte(c.Seed)}))
		for i, a := range addrs {
			var id common.Address
			id[0], id[18], id[19] = 0xa5, 0x11, byte(i)
			pl.Pre[a] = []h.Binding{{AspectID: id, Loops: 0}}
			pl.Post[a] = []h.Binding{{AspectID: id, Loops: 0}}
			kind := []byte{h.CALL, h.CALL, h.STATICCALL, h.DELEGATECALL, h.CALLCODE}[(int(c.Seed>>9)+i)%5]
			top.PushU(32).PushU(0x200).PushU(uint64((int(c.Seed>>5) + i*37) % 200)).PushU(0)
			if kind == h.CALL || kind == h.CALLCODE {
				top.PushU(uint64(i % 2)) // (every other one carries value)
			}
			top.PushAddr(a).PushU(60000).Op(kind, h.POP)
		}
		top.Op(h.STOP)
		w := h.BaseWorld([][]byte{top.Bytes()})
		for _, a := range addrs[:nPlanted] {
			w.Set(h.Acct{Addr: a, Balance: big.NewInt(1), Nonce: 1, Code: planted})
		}
		s11 := &scenario{Fork: fork, NContract: 1, World: w, Tx: h.TxSpec{Entry: h.ECall, From: h.Sender, To: h.ContractAddr(0), Input: []byte{3}, Gas: 3_000_000, Value: new(big.Int)}}
		check(runJP(s11, pl, true, nil), "planted-precompile", jpCheckOpts{benign: true, plan: pl})
		res.Count("planted_precompile_runs", 1)
	}
	res.Evals = evals
	res.Set("forks", sc.Fork.String())
	if c.Seed%29 == 0 {
		res.Sample = map[string]interface{}{"case": c, "scenario": desc, "baseline_firings": len(firingsOf(base.fs.L))}
	}
}

// quickSel thins the (position, kind) product deterministically: every position gets at least one kind.
func quickSel(seed uint64, idx, kind int) bool {
	return (int(seed%4)+idx)%4 == kind || (idx+kind)%3 == 0
}

func jpCases(seed uint64, tier string, salt uint64) []Case {
	n := 64
	if !quick(tier) {
		n = 1000
	}
	var cs []Case
	for i := 0; i < n; i++ {
		cs = append(cs, Case{Kind: "tree", Seed: h.Mix(seed, salt, uint64(i))})
	}
	return cs
}

func init() {
	Register(&Prop{
		ID:    "C05",
		Level: "fault_enumeration",
		Rule: "generated call trees (all call kinds, creates, precompile and code-less targets, calldata lengths 0/1/4/31/32/33/1000, values) run with: nothing bound; join points off; 0-3 real WASM Aspects bound per join point; a provider failure injected at every firing position x error kinds (thinned); trapping / gas-exhausting Aspects; the enable flag toggled between top-level calls and from inside a provider callback that re-enters the same EVM. " +
			"A parenthesis automaton over provider calls, Aspect enter/exit, Enter/Exit and Step events requires for every CALL frame whose target has code (code size read at frame entry) and with the flag on: exactly one pre firing before the first instruction, exactly one post firing after the last one and after all nested calls, none after a failed pre (and no callee instruction); no firing anywhere else; the protobuf request handed to each Aspect must carry that call's caller, callee, calldata, value, gas at that moment, call-tree index (shadow log) and, for post, the callee's own return data and error; benign Aspects must not make a join point fail; distinct_nontrivial = distinct event shapes",
		Assumptions: []string{"payload checks need an Aspect bound at that join point (the request is only observable through CaptureAspectEnter)", "the callee's own outcome is rebuilt from its last instruction (STOP/RETURN/REVERT with memory copied)"},
		Cases:       func(seed uint64, tier string) []Case { return jpCases(seed, tier, 0xC05) },
		Run:         func(c Case, tier string) (res CaseResult) { jpWorkload(c, "C05", &res); return },
		Floors: func(tier string) map[string]int64 {
			return map[string]int64{"runs": 800, "jp_frames_checked": 2000, "frames_without_jp_checked": 1500, "payloads_checked": 1500, "failed_pre_checked": 150, "jp_failures_injected": 300, "reentrant_calls": 20}
		},
	})
	Register(&Prop{
		ID:          "C06",
		Level:       "fault_enumeration",
		Rule:        "C05's workloads (real gas-metered WASM Aspects with loop counts 0/10/1000/10^8, traps, injected provider errors incl. the text 'out of gas') under a conservation checker: Aspect i of a join point is given exactly what Aspect i-1 left; the callee's first instruction sees entry gas minus the pre burns; the gas handed back to the caller (derived from the caller's next instruction) equals callee end gas minus the post burns (0 on an exceptional halt); no frame hands back more than it was given; a join point that ran out of gas surfaces as the identical vm.ErrOutOfGas value with 0 gas handed back; any other non-revert post failure hands back 0; distinct_nontrivial = distinct event shapes",
		Assumptions: []string{"burn = gas reported to CaptureAspectEnter minus gas in the result reported to CaptureAspectExit", "callee end gas is rebuilt only for frames ending in STOP/RETURN/REVERT"},
		Cases:       func(seed uint64, tier string) []Case { return jpCases(seed, tier, 0xC06) },
		Run:         func(c Case, tier string) (res CaseResult) { jpWorkload(c, "C06", &res); return },
		Floors: func(tier string) map[string]int64 {
			return map[string]int64{"runs": 800, "gas_frames_checked": 2000, "handback_equations_checked": 400, "failed_jp_gas_checked": 200, "aspect_gas_burned": 100000}
		},
	})
}
