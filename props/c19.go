package props

import (
	"encoding/json"
	"errors"
	"fmt"
	"math/big"
	"runtime/debug"
	"sort"
	"strconv"
	"strings"
	"sync"

	h "verif/harness"
	ct "verif/models/calltrace"

	atracers "github.com/artela-network/artela-evm/tracers"
	_ "github.com/artela-network/artela-evm/tracers/native"
	avm "github.com/artela-network/artela-evm/vm"
	atypes "github.com/artela-network/aspect-core/types"
	"github.com/ethereum/go-ethereum/common"
)

// C19 — call tracers account for every EVM and Aspect frame exactly once.
// The tracers are driven directly through their EVMLogger + AspectLogger
// methods with generated well-nested streams; GetResult() is checked against
// the tree built from the same stream by models/calltrace.

type fspec struct {
	typ        byte
	precompile bool
	pre, post  []*aspec
	children   []*fspec
	errKind    int
	// top-level frame only: Aspects of the transaction-level join points (before the frame is announced, after it ended)
	preTx, postTx []*aspec
}

type aspec struct {
	calls   []*fspec
	errKind int
}

var errGenericFrame = errors.New("out of gas")

func resultFor(kind int, id int) ([]byte, error) {
	out := []byte{0xee, byte(id >> 8), byte(id)}
	switch kind % 5 {
	case 0:
		return out, nil
	case 1:
		return append([]byte{0x08, 0xc3, 0x79, 0xa0}, out...), avm.ErrExecutionReverted
	case 2:
		return nil, avm.ErrExecutionReverted
	case 3:
		return out, errGenericFrame
	default:
		return nil, nil
	}
}

type emitter struct {
	evs []ct.Ev
	id  int
}

func (em *emitter) nextID(kind byte) []byte {
	em.id++
	return []byte{kind, byte(em.id >> 16), byte(em.id >> 8), byte(em.id)}
}

func addrN(prefix byte, n int) common.Address {
	var a common.Address
	a[0] = prefix
	a[18] = byte(n >> 8)
	a[19] = byte(n)
	return a
}

func (em *emitter) aspects(as []*aspec, jp int64, from, to common.Address) {
	for _, a := range as {
		in := em.nextID('A')
		id := em.id
		gas := uint64(2_000_000 + id)
		em.evs = append(em.evs, ct.Ev{K: ct.AspEnter, JP: jp, From: from, To: to, Aspect: addrN(0xa5, id), Input: in, Gas: gas, Value: big.NewInt(int64(id % 3))})
		for _, c := range a.calls {
			em.frame(c, addrN(0xa5, id), false)
		}
		out, err := resultFor(a.errKind, id)
		em.evs = append(em.evs, ct.Ev{K: ct.AspExit, JP: jp, ResGas: gas - uint64(500+id), Output: out, Err: err})
	}
}

func (em *emitter) frame(f *fspec, from common.Address, top bool) {
	in := em.nextID('F')
	id := em.id
	to := addrN(0xc0, id)
	if f.precompile {
		to = common.BytesToAddress([]byte{byte(1 + id%9)})
	}
	gas := uint64(1_000_000 + id)
	var value *big.Int
	switch f.typ {
	case h.STATICCALL:
		value = nil
	default:
		value = big.NewInt(int64(id % 4))
	}
	if top {
		em.evs = append(em.evs, ct.Ev{K: ct.TxStart, Gas: 9_000_000})
		em.aspects(f.preTx, 2, from, to)
		em.evs = append(em.evs, ct.Ev{K: ct.Start, From: from, To: to, Create: f.typ == h.CREATE, Input: in, Gas: gas, Value: value})
	} else {
		em.evs = append(em.evs, ct.Ev{K: ct.Enter, Typ: f.typ, From: from, To: to, Input: in, Gas: gas, Value: value})
	}
	em.aspects(f.pre, 4, from, to)
	for _, c := range f.children {
		em.frame(c, to, false)
	}
	em.aspects(f.post, 8, from, to)
	out, err := resultFor(f.errKind, id)
	if top {
		em.evs = append(em.evs, ct.Ev{K: ct.End, Output: out, GasUsed: uint64(1000 + id), Err: err})
		em.aspects(f.postTx, 16, from, to)
		em.evs = append(em.evs, ct.Ev{K: ct.TxEnd, Gas: 9_000_000 - uint64(1000+id)})
	} else {
		em.evs = append(em.evs, ct.Ev{K: ct.Exit, Output: out, GasUsed: uint64(1000 + id), Err: err})
	}
}

func describeStream(evs []ct.Ev) []string {
	var out []string
	depth := 0
	for _, e := range evs {
		ind := strings.Repeat("  ", depth)
		switch e.K {
		case ct.TxStart:
			out = append(out, "TxStart")
		case ct.TxEnd:
			out = append(out, "TxEnd")
		case ct.Start:
			out = append(out, fmt.Sprintf("%sStart id=%x create=%v", ind, e.Input, e.Create))
			depth++
		case ct.Enter:
			out = append(out, fmt.Sprintf("%sEnter %#x id=%x to=%x", ind, e.Typ, e.Input, e.To[18:]))
			depth++
		case ct.Exit, ct.End:
			depth--
			ind = strings.Repeat("  ", depth)
			out = append(out, fmt.Sprintf("%sExit gasUsed=%d err=%v", ind, e.GasUsed, e.Err))
		case ct.AspEnter:
			out = append(out, fmt.Sprintf("%sAspectEnter jp=%d id=%x gas=%d", ind, e.JP, e.Input, e.Gas))
			depth++
		case ct.AspExit:
			depth--
			ind = strings.Repeat("  ", depth)
			out = append(out, fmt.Sprintf("%sAspectExit jp=%d gasLeft=%d err=%v", ind, e.JP, e.ResGas, e.Err))
		}
	}
	return out
}

var (
	c19EnvOnce sync.Once
	c19Env     *avm.EVM
)

func c19EVM() *avm.EVM {
	c19EnvOnce.Do(func() {
		fs := h.NewForkSession(h.BaseWorld(nil), h.EnvSpec{Fork: h.Shanghai}, h.ForkOpts{})
		c19Env = fs.EVM
	})
	return c19Env
}

type c19Config struct {
	name string
	cfg  string
	flat bool
	only bool
	incl bool
	conv bool
}

var c19Configs = []c19Config{
	{name: "callTracer", cfg: `{}`},
	{name: "callTracer", cfg: `{"withLog":true}`},
	{name: "callTracer", cfg: `{"onlyTopCall":true}`, only: true},
	{name: "callTracer", cfg: `{"onlyTopCall":true,"withLog":true}`, only: true},
	{name: "flatCallTracer", cfg: `{}`, flat: true},
	{name: "flatCallTracer", cfg: `{"includePrecompiles":true}`, flat: true, incl: true},
	{name: "flatCallTracer", cfg: `{"convertParityErrors":true}`, flat: true, conv: true},
	{name: "flatCallTracer", cfg: `{"convertParityErrors":true,"includePrecompiles":true}`, flat: true, incl: true, conv: true},
}

// feed drives one tracer with the stream; returns GetResult output or the panic text.
func feedTracer(cfg c19Config, evs []ct.Ev) (out json.RawMessage, err error, panicked string) {
	defer func() {
		if r := recover(); r != nil {
			panicked = fmt.Sprint(r) + "\n" + clip(string(debug.Stack()), 2500)
		}
	}()
	tr, e := atracers.DefaultDirectory.New(cfg.name, tctxA(), json.RawMessage(cfg.cfg))
	if e != nil {
		return nil, e, ""
	}
	al, _ := tr.(atypes.AspectLogger)
	env := c19EVM()
	for _, ev := range evs {
		switch ev.K {
		case ct.TxStart:
			tr.CaptureTxStart(ev.Gas)
		case ct.TxEnd:
			tr.CaptureTxEnd(ev.Gas)
		case ct.Start:
			tr.CaptureStart(env, ev.From, ev.To, ev.Create, ev.Input, ev.Gas, ev.Value)
		case ct.End:
			tr.CaptureEnd(ev.Output, ev.GasUsed, ev.Err)
		case ct.Enter:
			tr.CaptureEnter(avm.OpCode(ev.Typ), ev.From, ev.To, ev.Input, ev.Gas, ev.Value)
		case ct.Exit:
			tr.CaptureExit(ev.Output, ev.GasUsed, ev.Err)
		case ct.AspEnter:
			if al == nil {
				return nil, fmt.Errorf("tracer does not implement AspectLogger"), ""
			}
			bn := uint64(100)
			al.CaptureAspectEnter(atypes.JoinPointRunType(ev.JP), ev.From, ev.To, ev.Aspect, ev.Input, ev.Gas, ev.Value, &atypes.BlockInput{Number: &bn})
		case ct.AspExit:
			al.CaptureAspectExit(atypes.JoinPointRunType(ev.JP), &atypes.AspectExecutionResult{Gas: ev.ResGas, Ret: ev.Output, Err: ev.Err})
		}
	}
	out, err = tr.GetResult()
	return
}

type jFrame struct {
	Type       string   `json:"type"`
	Gas        string   `json:"gas"`
	GasUsed    string   `json:"gasUsed"`
	Input      string   `json:"input"`
	Output     string   `json:"output"`
	Error      string   `json:"error"`
	Aspect     string   `json:"aspect"`
	Calls      []jFrame `json:"calls"`
	JoinPoints []jFrame `json:"joinPoints"`
}

func hexU(s string) uint64 {
	v, _ := strconv.ParseUint(strings.TrimPrefix(s, "0x"), 16, 64)
	return v
}

var opNames = map[byte]string{h.CALL: "CALL", h.CALLCODE: "CALLCODE", h.DELEGATECALL: "DELEGATECALL", h.STATICCALL: "STATICCALL", h.CREATE: "CREATE", h.CREATE2: "CREATE2"}

// compareNested checks a callTracer frame against the expected node. path is for messages.
func compareNested(j *jFrame, n *ct.Node, path string, only bool) string {
	if j.Input != "0x"+n.ID() {
		return fmt.Sprintf("%s: reported frame has input %s, expected frame %s", path, j.Input, n.ID())
	}
	if n.IsAspect {
		if !strings.EqualFold(j.Aspect, n.Aspect.Hex()) {
			return fmt.Sprintf("%s: Aspect address %s, expected %s", path, j.Aspect, n.Aspect.Hex())
		}
	} else if j.Type != opNames[n.Typ] {
		return fmt.Sprintf("%s: type %s, expected %s", path, j.Type, opNames[n.Typ])
	}
	if hexU(j.Gas) != n.Gas {
		return fmt.Sprintf("%s: gas %s, expected %d", path, j.Gas, n.Gas)
	}
	if hexU(j.GasUsed) != n.GasUsed {
		return fmt.Sprintf("%s (%s): gasUsed %d, expected %d (its own gas in - gas left)", path, n.ID(), hexU(j.GasUsed), n.GasUsed)
	}
	if j.Error != n.Err {
		return fmt.Sprintf("%s (%s): error %q, expected %q", path, n.ID(), j.Error, n.Err)
	}
	wantOut := ""
	if len(n.Output) > 0 {
		wantOut = fmt.Sprintf("0x%x", n.Output)
	}
	got := j.Output
	if got == "0x" {
		got = ""
	}
	if got != wantOut {
		return fmt.Sprintf("%s (%s): output %q, expected %q", path, n.ID(), got, wantOut)
	}
	if only && !n.IsAspect {
		// only-top-call: the top frame and ITS join points are asserted: each exactly once, in order (others may be interleaved)
		pos := 0
		for _, a := range n.JPs {
			found := -1
			cnt := 0
			for k := range j.JoinPoints {
				if j.JoinPoints[k].Input == "0x"+a.ID() {
					cnt++
					if found < 0 {
						found = k
					}
				}
			}
			if cnt != 1 {
				return fmt.Sprintf("%s: Aspect execution %s reported %d times", path, a.ID(), cnt)
			}
			if found < pos {
				return fmt.Sprintf("%s: Aspect execution %s reported out of order", path, a.ID())
			}
			pos = found
			jj := j.JoinPoints[found]
			jj.Calls = nil
			aa := *a
			aa.Calls = nil
			if d := compareNested(&jj, &aa, path+"/jp", false); d != "" {
				return d
			}
		}
		return ""
	}
	if len(j.Calls) != len(n.Calls) {
		return fmt.Sprintf("%s (%s): %d calls reported, %d issued by it", path, n.ID(), len(j.Calls), len(n.Calls))
	}
	for i := range n.Calls {
		if d := compareNested(&j.Calls[i], n.Calls[i], fmt.Sprintf("%s/call%d", path, i), false); d != "" {
			return d
		}
	}
	if !n.IsAspect {
		if len(j.JoinPoints) != len(n.JPs) {
			return fmt.Sprintf("%s (%s): %d Aspect executions reported, %d ran at its join points", path, n.ID(), len(j.JoinPoints), len(n.JPs))
		}
		for i := range n.JPs {
			if d := compareNested(&j.JoinPoints[i], n.JPs[i], fmt.Sprintf("%s/jp%d", path, i), false); d != "" {
				return d
			}
		}
	}
	return ""
}

type jFlat struct {
	Action struct {
		Input  string `json:"input"`
		Init   string `json:"init"`
		Aspect string `json:"aspect"`
		Gas    string `json:"gas"`
	} `json:"action"`
	Result *struct {
		GasUsed string `json:"gasUsed"`
	} `json:"result"`
	Error        string `json:"error"`
	Subtraces    int    `json:"subtraces"`
	TraceAddress []int  `json:"traceAddress"`
	Type         string `json:"type"`
}

func addrKey(a []int) string {
	parts := make([]string, len(a))
	for i, v := range a {
		parts[i] = strconv.Itoa(v)
	}
	return strings.Join(parts, ".")
}

// compareFlat checks the flat tracer's list against the expected tree.
func compareFlat(list []jFlat, root *ct.Node, includePrecompiles bool, active map[common.Address]bool) string {
	// expected nodes after the documented precompile filter
	dropped := func(n *ct.Node) bool {
		return !includePrecompiles && !n.IsAspect && (n.Typ == h.CALL || n.Typ == h.STATICCALL) && n.Parent != nil && active[n.To]
	}
	expParent := map[string]string{}
	expKids := map[string]int{}
	var order []string
	var visit func(n *ct.Node, parent string)
	visit = func(n *ct.Node, parent string) {
		if dropped(n) {
			return
		}
		expParent[n.ID()] = parent
		order = append(order, n.ID())
		if parent != "" {
			expKids[parent]++
		}
		for _, c := range n.Children() {
			visit(c, n.ID())
		}
	}
	visit(root, "")
	// reported
	idOf := func(f *jFlat) string {
		s := f.Action.Input
		if s == "" || s == "0x" {
			s = f.Action.Init
		}
		return strings.TrimPrefix(s, "0x")
	}
	byAddr := map[string]*jFlat{}
	seen := map[string]int{}
	for i := range list {
		f := &list[i]
		k := addrKey(f.TraceAddress)
		if _, dup := byAddr[k]; dup {
			return fmt.Sprintf("trace address [%s] emitted twice", k)
		}
		byAddr[k] = f
		seen[idOf(f)]++
	}
	for _, id := range order {
		if seen[id] != 1 {
			return fmt.Sprintf("frame %s emitted %d times (expected exactly once)", id, seen[id])
		}
	}
	if len(list) != len(order) {
		return fmt.Sprintf("%d frames emitted, %d expected", len(list), len(order))
	}
	kids := map[string][]int{}
	for i := range list {
		f := &list[i]
		if len(f.TraceAddress) == 0 {
			if expParent[idOf(f)] != "" {
				return fmt.Sprintf("frame %s emitted at the root but it has a parent", idOf(f))
			}
			continue
		}
		pk := addrKey(f.TraceAddress[:len(f.TraceAddress)-1])
		p, ok := byAddr[pk]
		if !ok {
			return fmt.Sprintf("trace address [%s] has no parent entry (not prefix-closed)", addrKey(f.TraceAddress))
		}
		if want := expParent[idOf(f)]; idOf(p) != want {
			return fmt.Sprintf("frame %s is placed under %s, but was issued by %s", idOf(f), idOf(p), want)
		}
		kids[pk] = append(kids[pk], f.TraceAddress[len(f.TraceAddress)-1])
	}
	for i := range list {
		f := &list[i]
		k := addrKey(f.TraceAddress)
		ks := kids[k]
		sort.Ints(ks)
		for j, v := range ks {
			if v != j {
				return fmt.Sprintf("children of [%s] (%s) are numbered %v, expected 0..%d", k, idOf(f), ks, len(ks)-1)
			}
		}
		if f.Subtraces != len(ks) {
			return fmt.Sprintf("frame %s at [%s] reports subtraces=%d but %d children were emitted", idOf(f), k, f.Subtraces, len(ks))
		}
		if f.Subtraces != expKids[idOf(f)] {
			return fmt.Sprintf("frame %s reports subtraces=%d, it issued %d", idOf(f), f.Subtraces, expKids[idOf(f)])
		}
	}
	// per-node result fields
	nodes := map[string]*ct.Node{}
	root.Walk(func(n *ct.Node) { nodes[n.ID()] = n })
	for i := range list {
		f := &list[i]
		n := nodes[idOf(f)]
		if n == nil {
			return fmt.Sprintf("emitted frame %s does not correspond to any event", idOf(f))
		}
		if hexU(f.Action.Gas) != n.Gas {
			return fmt.Sprintf("frame %s: gas %s, expected %d", n.ID(), f.Action.Gas, n.Gas)
		}
		// a result block is kept for successful frames and for reverts (revert output is useful), dropped for other failures
		if wantResult := n.Err == "" || n.Reverted; wantResult != (f.Result != nil) {
			return fmt.Sprintf("frame %s (error %q): result block present=%v, expected %v", n.ID(), n.Err, f.Result != nil, wantResult)
		}
		if f.Result != nil && hexU(f.Result.GasUsed) != n.GasUsed {
			return fmt.Sprintf("frame %s: gasUsed %d, expected %d", n.ID(), hexU(f.Result.GasUsed), n.GasUsed)
		}
		if (f.Error != "") != (n.Err != "") {
			return fmt.Sprintf("frame %s: error %q, expected %q", n.ID(), f.Error, n.Err)
		}
		if n.IsAspect && !strings.EqualFold(f.Action.Aspect, n.Aspect.Hex()) {
			return fmt.Sprintf("frame %s: aspect %s, expected %s", n.ID(), f.Action.Aspect, n.Aspect.Hex())
		}
	}
	return ""
}

func activePrecompileSet() map[common.Address]bool {
	env := c19EVM()
	rules := env.ChainConfig().Rules(env.Context.BlockNumber, env.Context.Random != nil, env.Context.Time)
	m := map[common.Address]bool{}
	for _, a := range avm.ActivePrecompiles(rules) {
		m[a] = true
	}
	return m
}

// streamClass names the Aspect-related features of a stream (part of the finding key).
func streamClass(root *ct.Node) string {
	callInAspect, multi, nestedJP := false, false, false
	txLevel := false
	for _, a := range root.JPs {
		if a.JP == 2 || a.JP == 16 {
			txLevel = true
		}
	}
	root.Walk(func(n *ct.Node) {
		if n.IsAspect && len(n.Calls) > 0 {
			callInAspect = true
		}
		if !n.IsAspect {
			pre, post := 0, 0
			for _, a := range n.JPs {
				switch a.JP {
				case 4:
					pre++
				case 8:
					post++
				}
			}
			if pre > 1 || post > 1 {
				multi = true
			}
			if n.Parent != nil && len(n.JPs) > 0 {
				nestedJP = true
			}
		}
	})
	var parts []string
	if callInAspect {
		parts = append(parts, "call-in-aspect")
	}
	if multi {
		parts = append(parts, "multi-aspect")
	}
	if nestedJP {
		parts = append(parts, "nested-jp")
	}
	if txLevel {
		parts = append(parts, "tx-level-jp")
	}
	if len(parts) == 0 {
		return "plain"
	}
	return strings.Join(parts, "+")
}

func checkStream(res *CaseResult, spec *fspec, active map[common.Address]bool) {
	em := &emitter{}
	em.frame(spec, h.Sender, true)
	root, err := ct.Build(em.evs, avm.ErrExecutionReverted.Error())
	if err != nil {
		res.Fail(Key("harness", "stream"), "generated stream is not well nested: "+err.Error())
		return
	}
	res.Count("streams", 1)
	nAsp, nFr := 0, 0
	root.Walk(func(n *ct.Node) {
		if n.IsAspect {
			nAsp++
		} else {
			nFr++
		}
	})
	res.Count("frames", int64(nFr))
	res.Count("aspect_executions", int64(nAsp))
	cls := streamClass(root)
	res.Set("stream_classes", cls)
	res.Shape(describeStream(em.evs))
	for _, cfg := range c19Configs {
		res.Count("tracer_runs", 1)
		out, gerr, pan := feedTracer(cfg, em.evs)
		label := cfg.name
		if cfg.only {
			label += "-onlyTop"
		}
		if pan != "" {
			res.Fail(Key("panic", label, cls), "tracer panicked on a well-nested stream: "+firstLine(pan), append(append([]string{cfg.name + " " + cfg.cfg, "stream:"}, describeStream(em.evs)...), pan)...)
			continue
		}
		if gerr != nil {
			res.Fail(Key("getresult-error", label, cls), "GetResult failed: "+gerr.Error(), append([]string{cfg.name + " " + cfg.cfg, "stream:"}, describeStream(em.evs)...)...)
			continue
		}
		var d string
		if cfg.flat {
			var list []jFlat
			if e := json.Unmarshal(out, &list); e != nil {
				d = "unparsable output: " + e.Error()
			} else {
				d = compareFlat(list, root, cfg.incl, active)
			}
		} else {
			var j jFrame
			if e := json.Unmarshal(out, &j); e != nil {
				d = "unparsable output: " + e.Error()
			} else {
				d = compareNested(&j, root, "top", cfg.only)
			}
		}
		if d != "" {
			res.Fail(Key("mismatch", label, cls), "tracer output does not account for the stream: "+d, append(append([]string{cfg.name + " " + cfg.cfg, "stream:"}, describeStream(em.evs)...), "output: "+clip(string(out), 3000))...)
		}
	}
}

func firstLine(s string) string {
	if i := strings.IndexByte(s, '\n'); i >= 0 {
		return s[:i]
	}
	return s
}

func mkAspects(n, calls, errBase int, precompileCall bool) []*aspec {
	var out []*aspec
	for i := 0; i < n; i++ {
		a := &aspec{errKind: errBase + i}
		if i == 0 || calls > 1 {
			for c := 0; c < calls; c++ {
				a.calls = append(a.calls, &fspec{typ: h.CALL, errKind: errBase + c})
			}
		}
		out = append(out, a)
	}
	return out
}

func init() {
	Register(&Prop{
		ID:    "C19",
		Level: "exploration",
		Rule: "well-nested event streams (TxStart Start JP* Body JP* End TxEnd; Body = (Enter JP* Body JP* Exit)*; JP = AspectEnter (Enter Body Exit)^{0..2} AspectExit; 0-3 Aspects per join point) are fed directly to callTracer and flatCallTracer (8 configurations) through their EVMLogger+AspectLogger methods; GetResult() must not panic and must equal the tree rebuilt from the same stream (every frame and Aspect execution exactly once under its issuer, own gasUsed/output/error; flat: unique prefix-closed trace addresses, children 0..k-1, subtraces = emitted children). " +
			"kind skel: exhaustive over a skeleton family (top frame: 0-2 pre Aspects x 0-2 calls in the first x 0-2 body calls x 0-2 post Aspects x 0-2 calls in the first; first body call: 0-2 pre x 0-2 calls x 0-2 post) ; kind rnd: random deeper trees (depth<=3, width<=3; every fourth one depth<=6, width<=2, i.e. trace addresses up to length 6 with siblings at every level; precompile targets, all call kinds); distinct_nontrivial = distinct streams containing at least one Aspect execution or nested call",
		Assumptions: []string{
			"documented design filters are modelled, not asserted against: CALL/STATICCALL to precompiles dropped by flatCallTracer unless includePrecompiles; with onlyTopCall only the top frame and its own Aspect executions are asserted",
			"streams are well nested; Aspect executions at one frame do not overlap (they are sequential in the VM)",
		},
		Cases: func(seed uint64, tier string) []Case {
			var cs []Case
			for a := 0; a < 243; a++ {
				cs = append(cs, Case{Kind: "skel", P: []int64{int64(a)}})
			}
			n := 600
			if !quick(tier) {
				n = 120000
			}
			for i := 0; i < n; i++ {
				cs = append(cs, Case{Kind: "rnd", Seed: h.Mix(seed, 0xC19, uint64(i))})
			}
			return cs
		},
		Run: runC19,
		Floors: func(tier string) map[string]int64 {
			return map[string]int64{"streams": 1500, "tracer_runs": 10000, "aspect_executions": 5000}
		},
	})
}

// maxDepthC19 bounds the random streams (6 for the deep variant: trace addresses of length 5).
func genFspec(r *h.RNG, depth int, inAspect bool) *fspec { return genFspecD(r, depth, inAspect, 3, 3) }

func genFspecD(r *h.RNG, depth int, inAspect bool, maxDepth, maxWidth int) *fspec {
	f := &fspec{typ: h.Pick(r, []byte{h.CALL, h.CALL, h.CALL, h.STATICCALL, h.DELEGATECALL, h.CALLCODE, h.CREATE, h.CREATE2}), errKind: r.Intn(5)}
	if depth == 0 {
		f.typ = h.Pick(r, []byte{h.CALL, h.CALL, h.CALL, h.CREATE})
	}
	if (f.typ == h.CALL || f.typ == h.STATICCALL) && depth > 0 && !inAspect && r.Chance(15) {
		f.precompile = true
		return f
	}
	asp := func() []*aspec {
		var out []*aspec
		n := 0
		switch r.Intn(6) {
		case 0, 1, 2:
			n = 0
		case 3:
			n = 1
		case 4:
			n = 2
		default:
			n = 3
		}
		for i := 0; i < n; i++ {
			a := &aspec{errKind: r.Intn(5)}
			nc := 0
			if r.Chance(40) {
				nc = 1 + r.Intn(2)
			}
			for c := 0; c < nc && depth < maxDepth; c++ {
				a.calls = append(a.calls, genFspecD(r, depth+1, true, maxDepth, maxWidth))
			}
			out = append(out, a)
		}
		return out
	}
	if f.typ == h.CALL {
		f.pre, f.post = asp(), asp()
	}
	if depth == 0 && r.Chance(35) {
		// transaction-level join points (their Aspects issue no EVM calls here: such a call would itself be announced
		// as a top-level frame)
		txAsp := func() *aspec {
			a := &aspec{errKind: r.Intn(5)}
			if r.Chance(40) {
				for c, nc := 0, 1+r.Intn(2); c < nc; c++ {
					a.calls = append(a.calls, genFspecD(r, depth+1, true, maxDepth, maxWidth))
				}
			}
			return a
		}
		for i, n := 0, r.Intn(3); i < n; i++ {
			f.preTx = append(f.preTx, txAsp())
		}
		for i, n := 0, r.Intn(3); i < n; i++ {
			f.postTx = append(f.postTx, txAsp())
		}
	}
	if depth < maxDepth {
		w := r.Intn(maxWidth + 1)
		if maxDepth > 3 && w == 0 && depth < maxDepth-1 {
			w = 1 // deep variant: keep the spine going
		}
		for i := 0; i < w; i++ {
			f.children = append(f.children, genFspecD(r, depth+1, inAspect, maxDepth, maxWidth))
		}
	}
	return f
}

func runC19(c Case, tier string) (res CaseResult) {
	active := activePrecompileSet()
	switch c.Kind {
	case "skel":
		a := int(c.P[0])
		nPre, cPre, nBody, nPost, cPost := a%3, (a/3)%3, (a/9)%3, (a/27)%3, (a/81)%3
		n := int64(0)
		for b := 0; b < 27; b++ {
			nPreC, cPreC, nPostC := b%3, (b/3)%3, (b/9)%3
			if nBody == 0 && b > 0 {
				break
			}
			if (nPre == 0 && cPre > 0) || (nPost == 0 && cPost > 0) || (nPreC == 0 && cPreC > 0) {
				continue
			}
			top := &fspec{typ: h.CALL, errKind: a + b}
			top.pre = mkAspects(nPre, cPre, a, false)
			top.post = mkAspects(nPost, cPost, a+1, false)
			for i := 0; i < nBody; i++ {
				ch := &fspec{typ: h.CALL, errKind: a + i}
				if i == 0 {
					ch.pre = mkAspects(nPreC, cPreC, b, false)
					ch.post = mkAspects(nPostC, 0, b+2, false)
					ch.children = []*fspec{{typ: h.STATICCALL, errKind: 0}}
				}
				top.children = append(top.children, ch)
			}
			checkStream(&res, top, active)
			n++
		}
		res.Evals = n * int64(len(c19Configs))
		if a == 121 {
			em := &emitter{}
			em.frame(&fspec{typ: h.CALL, pre: mkAspects(2, 1, 0, false), children: []*fspec{{typ: h.CALL}}}, h.Sender, true)
			res.Sample = map[string]interface{}{"kind": "skel", "example_stream": describeStream(em.evs)}
		}
	case "rnd":
		r := h.NewRNG(c.Seed)
		spec := genFspec(r, 0, false)
		if c.Seed%4 == 0 {
			spec = genFspecD(r, 0, false, 6, 2) // deep, narrow streams: long trace addresses with siblings at every level
		}
		checkStream(&res, spec, active)
		res.Evals = int64(len(c19Configs))
		if c.Seed%71 == 0 {
			em := &emitter{}
			em.frame(spec, h.Sender, true)
			res.Sample = map[string]interface{}{"kind": "rnd", "stream": describeStream(em.evs)}
		}
	}
	return
}
