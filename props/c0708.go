package props

import (
	"bytes"
	"context"
	"fmt"
	"math/big"

	h "verif/harness"

	avm "github.com/artela-network/artela-evm/vm"
	"github.com/ethereum/go-ethereum/common"
	"github.com/holiman/uint256"
)

// C07 — the call tree is a well-formed tree after every execution.
// C08 — the call tree records every attempt with inputs as made and outcome as seen.
// Both are decided at quiescent points (after each top-level return) by walking the
// public CallTree API + the hook dump and comparing with the shadow call log.

// checkTreeShape applies the C07 invariants. Returns findings as (rule, message).
func checkTreeShape(fs *h.ForkSession, sh *shadowLog) [][2]string {
	var out [][2]string
	add := func(rule, msg string) { out = append(out, [2]string{rule, msg}) }
	ct := fs.EVM.Tracer().CallTree()
	d := fs.EVM.Tracer().VerifDump()
	n := int(d.Count)
	if ct.Current() != nil {
		add("cursor-open", fmt.Sprintf("Current() is call #%d after the top-level return (a call was left open)", ct.Current().Index))
	}
	if fs.EVM.VerifDepth() != 0 {
		add("depth-open", fmt.Sprintf("interpreter depth is %d at rest", fs.EVM.VerifDepth()))
	}
	if len(d.Calls) != n {
		add("lookup-size", fmt.Sprintf("lookup table has %d entries, call counter is %d", len(d.Calls), n))
	}
	for i, c := range d.Calls {
		if c.Key != uint64(i) {
			add("lookup-keys", fmt.Sprintf("lookup keys are not 0..n-1: position %d holds key %d", i, c.Key))
			break
		}
	}
	if sh != nil && n != len(sh.Attempts) {
		add("count", fmt.Sprintf("call tree has %d nodes, the transaction attempted %d calls/creates", n, len(sh.Attempts)))
	}
	if n > 0 {
		if ct.Root() == nil || ct.Root() != ct.FindCall(0) {
			add("root", "Root() is not the node with index 0")
		}
	} else if ct.Root() != nil {
		add("root", "Root() non-nil with an empty tree")
	}
	for _, probe := range []uint64{uint64(n), uint64(n) + 1, uint64(n) + 1000, ^uint64(0)} {
		if ct.FindCall(probe) != nil {
			add("lookup-beyond", fmt.Sprintf("FindCall(%d) returns a node although only %d calls were entered", probe, n))
		}
	}
	listed := map[uint64]int{} // child index -> times listed by some parent
	for i := 0; i < n; i++ {
		c := ct.FindCall(uint64(i))
		if c == nil {
			add("lookup-hole", fmt.Sprintf("FindCall(%d) is nil (indices must be dense)", i))
			continue
		}
		if c.Index != uint64(i) {
			add("lookup-index", fmt.Sprintf("FindCall(%d) returns the node carrying index %d", i, c.Index))
			continue
		}
		if ct.ParentOf(uint64(i)) != c.Parent {
			add("parentof", fmt.Sprintf("ParentOf(%d) disagrees with the node's parent link", i))
		}
		if c.Parent != nil {
			if c.Parent.Index >= c.Index {
				add("parent-order", fmt.Sprintf("node %d has parent %d (must be smaller)", i, c.Parent.Index))
			}
			if c.ParentIndex() != int64(c.Parent.Index) {
				add("parentindex", fmt.Sprintf("ParentIndex() of node %d = %d, parent link says %d", i, c.ParentIndex(), c.Parent.Index))
			}
			if ct.FindCall(c.Parent.Index) != c.Parent {
				add("parent-foreign", fmt.Sprintf("parent of node %d is not the node registered under index %d", i, c.Parent.Index))
			}
			if c.IsRoot() {
				add("isroot", fmt.Sprintf("node %d has a parent but IsRoot() is true", i))
			}
		} else if c.ParentIndex() != -1 {
			add("parentindex", fmt.Sprintf("top-level node %d has ParentIndex() %d", i, c.ParentIndex()))
		}
		kids := ct.ChildrenOf(uint64(i))
		if len(kids) != len(c.Children) {
			add("childrenof", fmt.Sprintf("ChildrenOf(%d) has %d elements, node has %d", i, len(kids), len(c.Children)))
		}
		ci := c.ChildrenIndices()
		if len(ci) != len(c.Children) {
			add("childrenindices", fmt.Sprintf("ChildrenIndices() of node %d has %d elements, node has %d children", i, len(ci), len(c.Children)))
		}
		prev := int64(-1)
		for k, ch := range c.Children {
			if ch == nil {
				add("child-nil", fmt.Sprintf("node %d has a nil child", i))
				continue
			}
			if k < len(ci) && ci[k] != ch.Index {
				add("childrenindices", fmt.Sprintf("ChildrenIndices() of node %d disagrees with its children", i))
			}
			if int64(ch.Index) <= prev {
				add("children-order", fmt.Sprintf("children of node %d are not in increasing index order", i))
			}
			prev = int64(ch.Index)
			if ch.Parent != c {
				add("child-parent", fmt.Sprintf("node %d lists child %d whose parent link points elsewhere", i, ch.Index))
			}
			if ch.Index <= c.Index {
				add("child-order", fmt.Sprintf("node %d lists child %d with a smaller index", i, ch.Index))
			}
			listed[ch.Index]++
		}
	}
	for i := 0; i < n; i++ {
		c := ct.FindCall(uint64(i))
		if c == nil {
			continue
		}
		want := 0
		if c.Parent != nil {
			want = 1
		}
		if listed[uint64(i)] != want {
			add("listed-once", fmt.Sprintf("node %d is listed %d times among children (expected %d)", i, listed[uint64(i)], want))
		}
	}
	if sh != nil && n == len(sh.Attempts) {
		for i, a := range sh.Attempts {
			c := ct.FindCall(uint64(i))
			if c == nil {
				continue
			}
			if c.ParentIndex() != int64(a.Parent) {
				add("parent-vs-program", fmt.Sprintf("node %d has parent %d, but the call was issued by frame %d (program order)", i, c.ParentIndex(), a.Parent))
			}
		}
	}
	return out
}

var refusalClasses = map[string]bool{"depth": true, "balance": true, "nonce_overflow": true, "collision": true}

// checkTreeContent applies the C08 comparisons node by node.
func checkTreeContent(fs *h.ForkSession, sh *shadowLog) [][2]string {
	var out [][2]string
	add := func(rule, msg string) { out = append(out, [2]string{rule, msg}) }
	ct := fs.EVM.Tracer().CallTree()
	for _, p := range sh.Problems {
		add("harness-shadow", p)
	}
	d := fs.EVM.Tracer().VerifDump()
	if int(d.Count) != len(sh.Attempts) {
		add("attempts", fmt.Sprintf("call tree has %d nodes, the instruction stream shows %d CALL/CREATE/CREATE2 attempts (incl. top-level)", d.Count, len(sh.Attempts)))
		return out
	}
	for i, a := range sh.Attempts {
		c := ct.FindCall(uint64(i))
		if c == nil {
			add("missing", fmt.Sprintf("attempt %d has no node", i))
			continue
		}
		kind := "call"
		if a.To == nil {
			kind = "create"
		}
		tag := fmt.Sprintf("node %d (%s issued at seq %d, depth %d)", i, kind, a.StepSeq, a.Depth)
		if c.From != a.From {
			add("from", fmt.Sprintf("%s: From %s, caller was %s", tag, c.From.Hex(), a.From.Hex()))
		}
		if (c.To == nil) != (a.To == nil) || (c.To != nil && *c.To != *a.To) {
			add("to", fmt.Sprintf("%s: To %v, target was %v", tag, c.To, a.To))
		}
		if c.Value == nil || a.Value == nil || !c.Value.Eq(a.Value) {
			add("value", fmt.Sprintf("%s: Value %v, value operand was %v", tag, c.Value, a.Value))
		}
		if a.GasKnown && (c.Gas == nil || !c.Gas.IsUint64() || c.Gas.Uint64() != a.Gas) {
			add("gas", fmt.Sprintf("%s: Gas %v, supplied gas was %d", tag, c.Gas, a.Gas))
		}
		if a.DataOK && !bytes.Equal(c.Data, a.Data) {
			add("data-"+kind, fmt.Sprintf("%s: recorded %s data %x, at the moment of the call it was %x", tag, kind, clipB(c.Data), clipB(a.Data)))
		}
		if c.ParentIndex() != int64(a.Parent) {
			add("parent", fmt.Sprintf("%s: parent %d, issuing frame was %d", tag, c.ParentIndex(), a.Parent))
		}
		// "in program order under the frame that issued it": the node lists exactly the attempts this frame issued, in
		// the order it issued them (both through the query and in the nodes it points to)
		var wantKids, gotKids, linkKids []uint64
		for _, k := range a.Children {
			wantKids = append(wantKids, uint64(k))
		}
		gotKids = c.ChildrenIndices()
		for _, k := range c.Children {
			if k != nil {
				linkKids = append(linkKids, k.Index)
			}
		}
		if fmt.Sprint(gotKids) != fmt.Sprint(wantKids) && !(len(gotKids) == 0 && len(wantKids) == 0) {
			add("children-order", fmt.Sprintf("%s: lists children %v, the frame issued attempts %v in that order", tag, gotKids, wantKids))
		} else if fmt.Sprint(linkKids) != fmt.Sprint(wantKids) && !(len(linkKids) == 0 && len(wantKids) == 0) {
			add("children-order", fmt.Sprintf("%s: points to children %v, the frame issued attempts %v in that order", tag, linkKids, wantKids))
		}
		// outcome
		if a.Entered || a.Top {
			if a.ExitSeq == 0 {
				continue // never exited (panic path); reported elsewhere
			}
			if !bytes.Equal(c.Ret, a.Ret) {
				add("ret", fmt.Sprintf("%s: Ret %x, the caller was handed %x", tag, clipB(c.Ret), clipB(a.Ret)))
			}
			if got := h.ErrClass(c.Err); got != a.ErrClass && !(a.ErrClass == "error" && c.Err != nil) && !(a.ErrClass == "refused" && c.Err != nil) {
				add("err", fmt.Sprintf("%s: Err %q, the frame ended with %q", tag, got, a.ErrClass))
			}
		} else {
			if c.Err == nil {
				add("refused-noerr", fmt.Sprintf("%s: the call was refused before entering a frame but the node carries no error", tag))
			} else if cls := h.ErrClass(c.Err); !refusalClasses[cls] {
				add("refused-class", fmt.Sprintf("%s: refused call carries error %q", tag, cls))
			} else if cls == "depth" && a.Depth < 1024 {
				add("refused-class", fmt.Sprintf("%s: depth error at depth %d", tag, a.Depth))
			}
			if len(c.Ret) != 0 {
				add("refused-ret", fmt.Sprintf("%s: refused call carries return data %x", tag, clipB(c.Ret)))
			}
		}
		if a.LeftOK && c.RemainingGas != a.Left {
			add("leftover", fmt.Sprintf("%s: RemainingGas %d, the caller got back %d", tag, c.RemainingGas, a.Left))
		}
		if a.GasKnown && c.RemainingGas > a.Gas {
			add("leftover-exceeds", fmt.Sprintf("%s: RemainingGas %d exceeds the gas given %d", tag, c.RemainingGas, a.Gas))
		}
	}
	return out
}

type treeRun struct {
	fs   *h.ForkSession
	desc string
	tag  string // class for keys
}

// callTreeWorkload produces monitored runs for C07/C08.
func callTreeWorkload(c Case, tier string, res *CaseResult, each func(tr treeRun, sh *shadowLog)) {
	finish := func(fs *h.ForkSession, desc, tag string) {
		sh := buildShadow(fs.L, fs.Rules.IsEIP150)
		res.Count("runs", 1)
		res.Count("nodes", int64(len(sh.Attempts)))
		for _, a := range sh.Attempts {
			if !a.Entered && !a.Top {
				res.Count("refused_attempts", 1)
			}
			if a.Failed {
				res.Count("failed_attempts", 1)
			}
			res.Max("tree_depth", int64(a.Depth))
		}
		each(treeRun{fs, desc, tag}, sh)
		res.Shape(tag, shapeOf(fs.L))
	}
	switch c.Kind {
	case "gen":
		dc := genDual(c.Seed, h.Shanghai, func(o *h.GenOpts) { o.CallBias = 35; o.MaxGadgets = 16 })
		if dc.Tx.Entry != h.ECall && dc.Tx.Entry != h.ECreate && dc.Tx.Entry != h.ECreate2 {
			dc.Tx.Entry = h.ECall
			dc.Tx.From = h.Sender
		}
		if dc.Tx.Gas < 50000 {
			dc.Tx.Gas += 200000
		}
		fs := h.NewForkSession(dc.World, dc.Env, h.ForkOpts{Debug: true, RecSteps: true, JoinPoints: c.Seed%2 == 0})
		// the host's context may be cancelled (or past its deadline) before the transaction or while it runs:
		// whatever the VM then does, its call tree has to be closed and well formed afterwards
		ctxMode := int(c.Seed>>8) % 6 // 1: cancelled before; 2: cancelled at the first CALL/CREATE instruction
		var cancel context.CancelFunc
		if ctxMode == 1 || ctxMode == 2 {
			fs.Ctx, cancel = context.WithCancel(fs.Ctx)
			if ctxMode == 1 {
				cancel()
			} else {
				fs.Rec.OnStep = func(e *h.Event, scope *avm.ScopeContext) {
					switch e.Op {
					case h.CALL, h.CALLCODE, h.DELEGATECALL, h.STATICCALL, h.CREATE, h.CREATE2:
						cancel()
					}
				}
			}
			res.Count("cancelled_context_runs", 1)
		} else if ctxMode == 3 || ctxMode == 4 {
			// a consumer (debug hook, Aspect, host) reads the tree through its public API WHILE the transaction runs:
			// looking must not change what the tree answers later
			n := 0
			fs.Rec.OnStep = func(e *h.Event, scope *avm.ScopeContext) {
				if n++; n%3 != 0 {
					return
				}
				ct := fs.EVM.Tracer().CallTree()
				_ = ct.Root()
				_ = ct.Current()
				for i := uint64(0); ; i++ {
					node := ct.FindCall(i)
					if node == nil {
						break
					}
					_ = node.ChildrenIndices()
					_ = node.ParentIndex()
					_ = node.IsRoot()
					_ = ct.ChildrenOf(i)
					_ = ct.ParentOf(i)
				}
				res.Count("mid_run_tree_reads", 1)
			}
		}
		ir := fs.Invoke(dc.Tx)
		if ir.Panic != "" {
			res.Count("panics_seen", 1)
			return
		}
		tag := "gen"
		if cancel != nil {
			tag = "gen-ctx-cancelled"
		}
		finish(fs, dc.Desc, tag)
		if cancel != nil {
			cancel()
			fs.Ctx = h.WithExec(context.Background(), fs.X)
			fs.Rec.OnStep = nil
		}
		if ctxMode == 4 {
			fs.Rec.OnStep = nil // (3: the reader keeps looking during the follow-up transactions too)
		}
		// repeated top-level invocations on the same EVM
		r := h.NewRNG(c.Seed ^ 0x77)
		k := r.Intn(3)
		for j := 0; j < k; j++ {
			if r.Chance(50) {
				// between two transactions a host uses the recorder's public bookkeeping API outside any call
				// (fee transfers, state written by the host itself, asking for the current index)
				tr := fs.EVM.Tracer()
				_ = tr.CurrentCallIndex()
				switch r.Intn(3) {
				case 0:
					tr.SaveRawStateChange(h.ContractAddr(0), *uint256.NewInt(uint64(900 + j)), common.Hash{31: byte(j + 1)})
				case 1:
					tr.TransferWithRecord(fs.EVM.StateDB, h.EOARich, h.Sender, big.NewInt(1), func(db avm.StateDB, from, to common.Address, amount *big.Int) {
						db.SubBalance(from, amount)
						db.AddBalance(to, amount)
					})
				}
				res.Count("host_api_between_calls", 1)
			}
			tx := h.TxSpec{Entry: h.ECall, From: h.Sender, To: h.ContractAddr(r.Intn(2)), Input: r.Bytes(r.Intn(40)), Gas: uint64(30000 + r.Intn(200000)), Value: big.NewInt(int64(r.Intn(3)))}
			if r.Chance(20) {
				tx = h.TxSpec{Entry: h.ECreate, From: h.Sender, Input: h.InitTemplate(r, r.Intn(h.NumInitTemplates)), Gas: 200000, Value: big.NewInt(0)}
			}
			ir := fs.Invoke(tx)
			if ir.Panic != "" {
				res.Count("panics_seen", 1)
				return
			}
			finish(fs, dc.Desc+fmt.Sprintf(" +followup%d(%s)", j, tx.Entry), "repeat")
		}
		if c.Seed%83 == 0 {
			res.Sample = map[string]interface{}{"case": c, "desc": dc.Desc}
		}
	case "tree":
		r := h.NewRNG(c.Seed)
		sc := genScenario(r, scenOpts{FailPct: 25, ValuePct: 50, MinFork: h.Frontier})
		plan := bindPlan(r, sc, 40, []uint32{0, 10}, 10)
		fs := h.NewForkSession(sc.World, h.EnvSpec{Fork: sc.Fork}, h.ForkOpts{Debug: true, RecSteps: true, JoinPoints: true, Plan: plan})
		ir := fs.Invoke(sc.Tx)
		if ir.Panic != "" {
			res.Count("panics_seen", 1)
			return
		}
		finish(fs, sc.desc(), "tree")
		// the same tree with the host re-entering the EVM from inside join points (an Aspect-initiated call): from the
		// top-level frame's join points (depth 0) and from nested ones
		{
			var fsR *h.ForkSession
			reentered := 0
			pr := clonePlan(plan)
			pr.OnFiring = func(x *h.Exec, firing int, contract common.Address, pointcut string) {
				if fsR == nil || reentered >= 3 || (firing+int(c.Seed))%2 != 0 {
					return
				}
				reentered++
				evm := fsR.EVM
				evm.CloseAspectCall()
				target := h.ContractAddr(int(c.Seed>>4) % sc.NContract)
				if fsR.Rules.IsBerlin {
					fsR.DB.AddAddressToAccessList(target)
				}
				evm.Call(fsR.Ctx, avm.AccountRef(h.Sender), target, []byte{0}, 60000, new(big.Int))
				evm.AspectCall()
			}
			fsR = h.NewForkSession(sc.World, h.EnvSpec{Fork: sc.Fork}, h.ForkOpts{Debug: true, RecSteps: true, JoinPoints: true, Plan: pr})
			if ir := fsR.Invoke(sc.Tx); ir.Panic != "" {
				res.Count("panics_seen", 1)
			} else {
				finish(fsR, sc.desc()+fmt.Sprintf(" (host re-entered %d times from join points)", reentered), "reentrant")
				res.Count("host_reentrant_calls", int64(reentered))
			}
		}
		firings := firingsOf(fs.L)
		for _, f := range firings {
			kind := int((c.Seed + uint64(f.idx)) % 4)
			p := clonePlan(plan)
			p.FailAt[f.idx] = injectedErr(kind)
			fs2 := h.NewForkSession(sc.World, h.EnvSpec{Fork: sc.Fork}, h.ForkOpts{Debug: true, RecSteps: true, JoinPoints: true, Plan: p})
			ir2 := fs2.Invoke(sc.Tx)
			if ir2.Panic != "" {
				res.Count("panics_seen", 1)
				continue
			}
			res.Count("jp_failures_injected", 1)
			pp := "pre"
			if f.pointcut == "postContractCall" {
				pp = "post"
			}
			finish(fs2, sc.desc()+fmt.Sprintf(" fail@%d:%s:%s", f.idx, pp, injectedErrNames[kind]), "jpfail-"+pp)
		}
	case "depth":
		// self-recursion to the depth limit (pre-Tangerine forks forward all gas)
		fork := h.Fork(c.P[0])
		a := h.NewAsm()
		// store depth counter, call self with all gas, store flag
		a.PushU(1).PushU(0).Op(h.SLOAD, h.ADD).PushU(0).Op(h.SSTORE)
		a.PushU(0).PushU(0).PushU(0).PushU(0).PushU(uint64(c.P[1])).Op(h.ADDRESS).PushU(50000).Op(h.GAS, h.SUB, h.CALL).PushU(1).Op(h.SSTORE, h.STOP)
		w := h.BaseWorld([][]byte{a.Bytes()})
		w.Get(h.ContractAddr(0)).Balance = big.NewInt(3)
		fs := h.NewForkSession(w, h.EnvSpec{Fork: fork}, h.ForkOpts{Debug: true, RecSteps: true})
		ir := fs.Invoke(h.TxSpec{Entry: h.ECall, From: h.Sender, To: h.ContractAddr(0), Gas: 200_000_000})
		if ir.Panic != "" {
			res.Count("panics_seen", 1)
			return
		}
		finish(fs, fmt.Sprintf("self-recursion fork=%s value=%d", fork, c.P[1]), "depth")
	case "refuse":
		fork := h.Fork(c.P[0])
		for variant := 0; variant < 5; variant++ {
			a := h.NewAsm()
			w := h.BaseWorld(nil)
			switch variant {
			case 0: // CALL with value > balance, then a normal call, then overwrite args
				a.Push(h.U(0xabcdef)).PushU(0).Op(h.MSTORE)
				a.PushU(32).PushU(0).PushU(32).PushU(0).Push(new(uint256.Int).Lsh(h.U(1), 100)).PushAddr(h.ContractAddr(1)).PushU(50000).Op(h.CALL, h.POP)
				a.PushU(32).PushU(0).PushU(32).PushU(0).PushU(1).PushAddr(h.ContractAddr(1)).PushU(50000).Op(h.CALL, h.POP)
				a.Push(h.U(0x1111)).PushU(0).Op(h.MSTORE, h.STOP)
			case 1: // CREATE with value > balance, then CREATE2 twice with the same salt (collision), args overwritten
				init := h.InitCodeReturning([]byte{0x00})
				a.MstoreBytes(0, init)
				a.PushU(uint64(len(init))).PushU(0).Push(new(uint256.Int).Lsh(h.U(1), 100)).Op(h.CREATE, h.POP)
				if fork >= h.Constantinople {
					a.PushU(7).PushU(uint64(len(init))).PushU(0).PushU(0).Op(h.CREATE2, h.POP)
					a.PushU(7).PushU(uint64(len(init))).PushU(0).PushU(0).Op(h.CREATE2, h.POP)
				}
				a.Push(h.U(0x2222)).PushU(0).Op(h.MSTORE, h.STOP)
			case 2: // nonce overflow of the creator
				init := h.InitCodeReturning([]byte{0x00})
				a.MstoreBytes(0, init)
				a.PushU(uint64(len(init))).PushU(0).PushU(0).Op(h.CREATE, h.POP)
				a.PushU(0).PushU(0).PushU(0).PushU(0).PushU(0).PushAddr(h.ContractAddr(1)).PushU(30000).Op(h.CALL, h.POP, h.STOP)
			case 3: // return data written over the argument area (exact overlap), then a second call reading it
				a.Push(h.U(0x5151)).PushU(0).Op(h.MSTORE)
				a.PushU(32).PushU(0).PushU(32).PushU(0).PushU(0).PushAddr(h.ContractAddr(1)).PushU(50000).Op(h.CALL, h.POP)
				a.PushU(64).PushU(0).PushU(64).PushU(0).PushU(0).PushAddr(h.ContractAddr(1)).PushU(50000).Op(h.CALL, h.POP)
				a.PushU(0).PushU(0).Op(h.MSTORE).PushU(0).PushU(4096).Op(h.MSTORE, h.STOP)
			case 4: // create whose init code area is overwritten afterwards and memory grown
				init := h.InitCodeReturning([]byte{0x60, 0x01, 0x00})
				a.MstoreBytes(0, init)
				a.PushU(uint64(len(init))).PushU(0).PushU(0).Op(h.CREATE, h.POP)
				a.Push(h.U(0x3333)).PushU(0).Op(h.MSTORE).PushU(1).PushU(100000).Op(h.MSTORE, h.STOP)
			}
			callee := h.NewAsm().PushU(0xfeed).PushU(0).Op(h.MSTORE).PushU(32).PushU(0).Op(h.RETURN).Bytes()
			w = h.BaseWorld([][]byte{a.Bytes(), callee})
			if variant == 2 {
				w.Get(h.ContractAddr(0)).Nonce = ^uint64(0)
			}
			fs := h.NewForkSession(w, h.EnvSpec{Fork: fork}, h.ForkOpts{Debug: true, RecSteps: true, JoinPoints: variant%2 == 0})
			ir := fs.Invoke(h.TxSpec{Entry: h.ECall, From: h.Sender, To: h.ContractAddr(0), Gas: 2_000_000})
			if ir.Panic != "" {
				res.Count("panics_seen", 1)
				continue
			}
			finish(fs, fmt.Sprintf("refusal variant %d fork=%s", variant, fork), fmt.Sprintf("refuse%d", variant))
		}
	}
}

func callTreeCases(seed uint64, tier string, salt uint64) []Case {
	ng, nt := 700, 60
	if !quick(tier) {
		ng, nt = 12000, 800
	}
	var cs []Case
	for i := 0; i < ng; i++ {
		cs = append(cs, Case{Kind: "gen", Seed: h.Mix(seed, salt, uint64(i))})
	}
	for i := 0; i < nt; i++ {
		cs = append(cs, Case{Kind: "tree", Seed: h.Mix(seed, salt+1, uint64(i))})
	}
	for _, f := range []h.Fork{h.Frontier, h.Homestead} {
		cs = append(cs, Case{Kind: "depth", P: []int64{int64(f), 0}})
	}
	cs = append(cs, Case{Kind: "depth", P: []int64{int64(h.Frontier), 1}})
	for f := h.Frontier; f <= h.Shanghai; f++ {
		cs = append(cs, Case{Kind: "refuse", P: []int64{int64(f)}})
	}
	return cs
}

func init() {
	Register(&Prop{
		ID:    "C07",
		Level: "exploration",
		Rule: "invariant monitor at quiescence: after EVERY top-level return the public CallTree API and the complete hook dump are walked: dense indices 0..n-1 (lookup keys, FindCall(i).Index==i, nothing beyond n), exactly one parent with a smaller index listing each non-top node exactly once, children in increasing order, ParentOf/ChildrenOf/ParentIndex/ChildrenIndices agree with the links, cursor and interpreter depth at rest, n == number of CALL/CREATE attempts of the shadow log and every node's parent == the frame that issued it; " +
			"workloads: generated mutually calling programs (incl. follow-up invocations on the same EVM), call trees with real Aspects and a failure injected at every join-point firing, self-recursion to the depth limit, refused attempts (balance, nonce overflow, collision); distinct_nontrivial = distinct event shapes of runs with at least 2 nodes",
		Assumptions: []string{"the shadow call log is derived from debug-tracer Step/Enter/Exit events only (an attempt = CALL/CREATE/CREATE2 step that did not fault itself)"},
		Cases:       func(seed uint64, tier string) []Case { return callTreeCases(seed, tier, 0xC07) },
		Run: func(c Case, tier string) (res CaseResult) {
			callTreeWorkload(c, tier, &res, func(tr treeRun, sh *shadowLog) {
				for _, f := range checkTreeShape(tr.fs, sh) {
					res.Fail(Key(f[0], tr.tag), "call tree is not well formed after a top-level return: "+f[1], tr.desc)
				}
			})
			return
		},
		Floors: func(tier string) map[string]int64 {
			return map[string]int64{"runs": 1000, "nodes": 4000, "refused_attempts": 50, "failed_attempts": 500, "jp_failures_injected": 100}
		},
	})
	Register(&Prop{
		ID:    "C08",
		Level: "exploration",
		Rule: "offline log checker: an independent attempt log is built from the debug-tracer stream (operands and memory COPIED at each CALL/CREATE/CREATE2 step; outcome from Exit events; gas handed back derived from the caller's next step) and compared node by node with the VM's call tree after the transaction has finished (From, To, Value, supplied gas, calldata/init code, parent, Ret, Err class, RemainingGas; refused attempts must carry a refusal error); " +
			"workloads as C07, whose call gadgets deliberately overlap argument and return areas, overwrite the argument area after the call and grow memory; distinct_nontrivial = distinct event shapes of runs with at least 2 nodes",
		Assumptions: []string{"calldata comparison needs the step's memory copy (steps with more than 64 KiB of memory are skipped for that field)", "for refused CALLs the supplied gas is taken to be the gas handed back (they return it unchanged)"},
		Cases:       func(seed uint64, tier string) []Case { return callTreeCases(seed, tier, 0xC08) },
		Run: func(c Case, tier string) (res CaseResult) {
			callTreeWorkload(c, tier, &res, func(tr treeRun, sh *shadowLog) {
				for _, f := range checkTreeContent(tr.fs, sh) {
					res.Fail(Key(f[0], tr.tag), "call tree node differs from the call as made / outcome as seen: "+f[1], tr.desc)
				}
				for _, a := range sh.Attempts {
					if a.DataOK && len(a.Data) > 0 {
						res.Count("data_fields_compared", 1)
					}
					if a.LeftOK {
						res.Count("leftover_compared", 1)
					}
				}
			})
			return
		},
		Floors: func(tier string) map[string]int64 {
			return map[string]int64{"runs": 1000, "nodes": 4000, "refused_attempts": 50, "data_fields_compared": 1500, "leftover_compared": 3000}
		},
	})
	_ = avm.ErrDepth
	_ = common.Address{}
}
