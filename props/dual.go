package props

import (
	"bytes"
	"fmt"
	"math/big"

	h "verif/harness"

	"github.com/ethereum/go-ethereum/common"
	"github.com/ethereum/go-ethereum/core/types"
	"github.com/holiman/uint256"
)

// DualCase is one input fed to both VMs.
type DualCase struct {
	World *h.World
	Env   h.EnvSpec
	Tx    h.TxSpec
	Desc  string
}

var extraEipPool = []int{1344, 1884, 2200, 3198, 3855, 3860}

func genExtraEips(r *h.RNG, f h.Fork) []int {
	if !r.Chance(25) {
		return nil
	}
	var out []int
	n := 1 + r.Intn(3)
	for i := 0; i < n; i++ {
		e := h.Pick(r, extraEipPool)
		dup := false
		for _, x := range out {
			if x == e {
				dup = true
			}
		}
		if !dup {
			out = append(out, e)
		}
	}
	if f >= h.Berlin && r.Chance(30) {
		out = append(out, h.Pick(r, []int{2929, 3529}))
	}
	return out
}

func genGas(r *h.RNG) uint64 {
	switch r.Intn(6) {
	case 0:
		return uint64(r.Intn(3000))
	case 1:
		return uint64(3000 + r.Intn(50000))
	case 2:
		return 100000
	default:
		return uint64(100000 + r.Intn(400000))
	}
}

func genValue(r *h.RNG) *big.Int {
	switch r.Intn(6) {
	case 0:
		return big.NewInt(1)
	case 1:
		return big.NewInt(int64(r.Intn(100000)))
	case 2:
		return new(big.Int).Lsh(big.NewInt(1), 100) // more than any balance
	default:
		return new(big.Int)
	}
}

func genCalldata(r *h.RNG) []byte {
	switch r.Intn(6) {
	case 0:
		return nil
	case 1:
		return []byte{}
	case 2:
		return r.Bytes(4)
	case 3:
		return r.Bytes(32)
	default:
		return r.Bytes(r.Intn(100))
	}
}

// genDual builds a generated dual case for Frontier..maxFork.
func genDual(seed uint64, maxFork h.Fork, tweak func(o *h.GenOpts)) DualCase {
	r := h.NewRNG(seed)
	f := h.Fork(r.Intn(int(maxFork) + 1))
	o := h.GenOpts{Precompiles: true, Push0: r.Chance(30), MaxGadgets: 14, ReturnData: f >= h.Byzantium}
	if tweak != nil {
		tweak(&o)
	}
	n := 1 + r.Intn(4)
	w := h.GenWorld(r, n, o)
	dc := DualCase{World: w, Env: h.EnvSpec{Fork: f, ExtraEips: genExtraEips(r, f)}}
	if m := h.Mix(seed, 0x707ce); m%12 == 0 {
		// an account whose nonce cannot be incremented any more (creations by it are refused)
		if a := w.Get(h.ContractAddr(int(m>>8) % n)); a != nil {
			a.Nonce = ^uint64(0)
		}
	} else if m%12 == 1 {
		if a := w.Get(h.Sender); a != nil {
			a.Nonce = ^uint64(0)
		}
	}
	if m := h.Mix(seed, 0xb10c); m%10 < 3 { // (drawn apart from r: the block height does not perturb the program)
		dc.Env.Number = []uint64{1, 255, 256, 257, 258, 300, 5000, 1 << 33}[(m>>8)%8]
	}
	entry := h.Entry(r.Intn(6))
	if r.Chance(40) {
		entry = h.ECall
	}
	tx := h.TxSpec{Entry: entry, From: h.Sender, To: h.ContractAddr(0), Input: genCalldata(r), Gas: genGas(r), Value: genValue(r)}
	switch entry {
	case h.ECreate, h.ECreate2:
		if r.Chance(50) {
			tx.Input = h.InitTemplate(r, r.Intn(h.NumInitTemplates))
		} else {
			oo := o
			oo.NContracts = n
			tx.Input = h.GenProgram(r, 0, oo)
		}
		tx.Salt = uint256.NewInt(uint64(r.Intn(3)))
		if r.Chance(10) {
			// creator with nonce 2^64-1 (nonce overflow) or colliding target
			a := w.Get(h.Sender)
			a.Nonce = ^uint64(0)
		}
	case h.ECall:
		if r.Chance(10) {
			tx.To = h.Pick(r, []common.Address{h.EOARich, h.Nobody, h.EOAPoor, common.BytesToAddress([]byte{byte(1 + r.Intn(9))})})
		}
	}
	if entry != h.ECall && entry != h.ECreate && entry != h.ECreate2 {
		// CallCode/DelegateCall/StaticCall entry points: caller is a contract-like ref
		tx.From = h.Pick(r, []common.Address{h.Sender, h.ContractAddr(n - 1)})
	}
	if f >= h.Berlin && r.Chance(30) {
		// warm some slots/addresses
		tx.AccessList = append(tx.AccessList, accessTuple(h.ContractAddr(r.Intn(n)), r))
	}
	dc.Tx = tx
	dc.Desc = fmt.Sprintf("fork=%s block=%d eips=%v entry=%s gas=%d value=%v ncontracts=%d in=%d", f, dc.Env.Number, dc.Env.ExtraEips, entry, tx.Gas, tx.Value, n, len(tx.Input))
	return dc
}

// executedOutOfDomain reports whether a recorded run executed a non-standard
// opcode or touched an Artela precompile address (decided from recorded steps).
func executedOutOfDomain(l *h.Log, tx h.TxSpec, eips []int) (bool, string) {
	isArtela := func(a common.Address) bool {
		for i := 0; i < 19; i++ {
			if a[i] != 0 {
				return false
			}
		}
		return a[19] >= 100 && a[19] <= 102
	}
	if isArtela(tx.To) || isArtela(tx.From) {
		return true, "tx touches 0x64-0x66"
	}
	for i := range l.Events {
		e := &l.Events[i]
		if e.K != h.KStep {
			if e.K == h.KEnter && (isArtela(e.To) || isArtela(e.From)) {
				return true, "frame touches 0x64-0x66"
			}
			continue
		}
		if e.Op >= 0xe0 && e.Op <= 0xe7 {
			// even when it faults: the fork validates its stack, upstream treats the byte as undefined
			return true, fmt.Sprintf("journal opcode %#x", e.Op)
		}
		if e.Err != "" {
			continue // the instruction did not execute
		}
		n := len(e.Stack)
		var a common.Address
		switch e.Op {
		case h.BALANCE, h.EXTCODESIZE, h.EXTCODEHASH, h.EXTCODECOPY, h.SELFDESTRUCT:
			if n >= 1 {
				a = common.Address(e.Stack[n-1].Bytes20())
			}
		case h.CALL, h.CALLCODE, h.DELEGATECALL, h.STATICCALL:
			if n >= 2 {
				a = common.Address(e.Stack[n-2].Bytes20())
			}
		default:
			continue
		}
		if isArtela(a) {
			return true, "instruction targets 0x64-0x66"
		}
	}
	return false, ""
}

// shapeOf hashes the sequence of (kind, op, depth, err) of a log.
func shapeOf(l *h.Log) string {
	var b bytes.Buffer
	for i := range l.Events {
		e := &l.Events[i]
		switch e.K {
		case h.KStep, h.KFault:
			fmt.Fprintf(&b, "%d.%x.%d.%s;", e.K, e.Op, e.Depth, e.Err)
		case h.KExit, h.KEnd, h.KReturn:
			fmt.Fprintf(&b, "%d.%s;", e.K, e.Err)
		case h.KEnter, h.KStart:
			fmt.Fprintf(&b, "%d.%x;", e.K, e.Typ)
		case h.KProvider:
			fmt.Fprintf(&b, "P%s.%s;", e.Pointcut, e.ErrText)
		case h.KAspectExit:
			fmt.Fprintf(&b, "A%s;", e.Err)
		}
	}
	return b.String()
}

func excerpt(l *h.Log, around, span int) []string {
	var out []string
	lo, hi := around-span, around+span
	if lo < 0 {
		lo = 0
	}
	if hi > len(l.Events) {
		hi = len(l.Events)
	}
	for i := lo; i < hi; i++ {
		out = append(out, l.Events[i].Short())
	}
	return out
}

func opsCovered(r *CaseResult, l *h.Log) {
	for i := range l.Events {
		e := &l.Events[i]
		if e.K == h.KStep {
			r.Set("opcodes", fmt.Sprintf("%02x", e.Op))
			if e.Err != "" {
				r.Set("step_errors", e.Err)
			}
			r.Max("depth", int64(e.Depth))
		}
		if e.K == h.KExit || e.K == h.KEnd {
			if e.Err != "" {
				r.Set("frame_errors", clip(e.Err, 40))
			}
		}
	}
}

func clip(s string, n int) string {
	if len(s) > n {
		return s[:n]
	}
	return s
}

func accessTuple(a common.Address, r *h.RNG) types.AccessTuple {
	t := types.AccessTuple{Address: a}
	k := r.Intn(3)
	for i := 0; i < k; i++ {
		t.StorageKeys = append(t.StorageKeys, h.HashU(uint64(r.Intn(8))))
	}
	return t
}

// envObserve is a scenario hook making every frame record who called it, with what value and where it runs.
func envObserve(a *h.Asm, n *node, phase int) {
	if phase != 0 {
		return
	}
	base := uint64(0x300 + 8*n.ID)
	for k, op := range []byte{h.CALLER, h.CALLVALUE, h.ADDRESS, h.ORIGIN} {
		a.Op(op)
		if n.Static {
			a.PushU(base + uint64(32*k)).Op(h.MSTORE)
		} else {
			a.PushU(base + uint64(k)).Op(h.SSTORE)
		}
	}
}

// genDualTree builds a structured call tree (all call kinds, creates, values, failing terminators) as a dual case.
func genDualTree(seed uint64) DualCase {
	r := h.NewRNG(seed)
	sc := genScenario(r, scenOpts{FailPct: 30, ValuePct: 40, MinFork: h.Frontier, MaxFork: h.Shanghai, MaxNodes: 10, MaxDepth: 5, Extra: envObserve,
		Kinds: []byte{h.CALL, h.CALL, h.DELEGATECALL, h.DELEGATECALL, h.DELEGATECALL, h.CALLCODE, h.CALLCODE, h.STATICCALL, h.CREATE, h.CREATE2}})
	return DualCase{World: sc.World, Env: h.EnvSpec{Fork: sc.Fork}, Tx: sc.Tx, Desc: "call tree " + sc.desc()}
}
