package props

import (
	"fmt"
	"math/big"
	"sort"

	h "verif/harness"
	"verif/models/keyreg"

	avm "github.com/artela-network/artela-evm/vm"
	"github.com/ethereum/go-ethereum/common"
	"github.com/holiman/uint256"
)

// C10 — journal entries are attributed to the right account and call in progress.
// C13 — the balance journal brackets every value transfer with the true balances.

// dumpJournal extracts every (key -> per-call change lists) the tracer holds, via the complete dump.
func dumpJournal(d *avm.VerifDump) (map[jkey]map[uint64][][]byte, map[common.Address]map[uint64][][]byte) {
	keys := map[jkey]map[uint64][][]byte{}
	for _, ie := range d.Index {
		n := d.Nodes[ie.ID]
		if n.Changes != nil {
			keys[jkey{ie.Account, ie.Slot, ie.Offset, ie.TypeId}] = n.Changes
		}
	}
	bal := map[common.Address]map[uint64][][]byte{}
	for a, id := range d.Roots {
		if d.Nodes[id].Changes != nil {
			bal[a] = d.Nodes[id].Changes
		}
	}
	return keys, bal
}

// journalScenario builds a call tree whose frames register and journal shared variables.
func journalScenario(seed uint64, kinds []byte, minFork, maxFork h.Fork) (*scenario, *h.RNG) {
	r := h.NewRNG(seed)
	o := scenOpts{FailPct: 25, ValuePct: 40, MinFork: minFork, MaxFork: maxFork, Kinds: kinds, Contracts: 2 + r.Intn(2),
		GasReqs: []uint64{0, 2_000_000, 900_000, 400_000, 150_000, 60_000}, RootGas: 6_000_000, MaxNodes: 8,
		Extra: journalExtra(seed, jReal, false, 70)}
	sc := genScenario(r, o)
	return sc, r
}

var c10Kinds = []byte{h.CALL, h.CALL, h.CALL, h.DELEGATECALL, h.DELEGATECALL, h.CALLCODE, h.STATICCALL, h.CREATE, h.CREATE2, h.CALL}

type journalRun struct {
	fs   *h.ForkSession
	sj   *shadowJournal
	sh   *shadowLog
	ir   h.InvokeResult
	desc string
}

func runJournalScenario(sc *scenario, plan *h.AspectPlan, jp bool) journalRun {
	fs := h.NewForkSession(sc.World, h.EnvSpec{Fork: sc.Fork}, h.ForkOpts{Debug: true, RecSteps: true, JoinPoints: jp, Plan: plan})
	sj := attachShadowJournal(fs)
	ir := fs.Invoke(sc.Tx)
	jr := journalRun{fs: fs, sj: sj, ir: ir, desc: sc.desc()}
	if ir.Panic == "" {
		jr.sh = buildShadow(fs.L, fs.Rules.IsEIP150)
	}
	return jr
}

func checkC10(res *CaseResult, jr journalRun, label string) {
	if jr.ir.Panic != "" {
		res.Fail(Key("panic", label), "panic escaped the entry point: "+firstLine(jr.ir.Panic), jr.desc, clip(jr.ir.PanicStk, 1500))
		return
	}
	want := jr.sj.expected(jr.sh)
	d := jr.fs.EVM.Tracer().VerifDump()
	got, _ := dumpJournal(d)
	sc := jr.fs.EVM.Tracer().StateChanges()
	entries := int64(0)
	keys := map[jkey]bool{}
	for k := range want {
		keys[k] = true
	}
	for k := range got {
		keys[k] = true
	}
	accts := map[common.Address]bool{}
	idxs := map[uint64]bool{}
	for k := range keys {
		g, w := keyreg.Canon(got[k]), keyreg.Canon(want[k])
		if got[k] == nil {
			g = "<nil>"
		}
		if want[k] == nil {
			w = "<nil>"
		}
		for i, l := range want[k] {
			entries += int64(len(l))
			idxs[i] = true
		}
		accts[k.Acct] = true
		if g != w {
			rule := "wrong-entries"
			switch {
			case want[k] == nil:
				rule = "unexpected-key" // something recorded that no frame journaled under this account/variable (mixing)
			case got[k] == nil:
				rule = "missing-key"
			default:
				// same values under other call indices?
				if flatVals(got[k]) == flatVals(want[k]) {
					rule = "wrong-call-index"
				}
			}
			res.Fail(Key(rule, label), "recorded journal differs from the shadow (storage address of the executing frame, index of the innermost CALL/CREATE frame, chronological values with immediate repeats collapsed)",
				jr.desc, "variable "+k.String(), "recorded: "+clip(g, 500), "expected: "+clip(w, 500))
			continue
		}
		// the query API must return the same record
		qs, err := sc.Slot(k.Acct, new(uint256.Int).SetBytes32(k.Slot[:]), uint256.NewInt(uint64(k.Off)), k.Typ)
		if err != nil || canonReal(qs) != w {
			res.Fail(Key("query-differs", label), "Slot() query disagrees with the dump", jr.desc, k.String(), canonReal(qs), w)
		}
	}
	res.Count("journal_entries_checked", entries)
	res.Count("journal_keys_checked", int64(len(keys)))
	if len(accts) > 1 {
		res.Count("runs_with_several_accounts", 1)
	}
	if len(idxs) > 1 {
		res.Count("runs_with_several_call_indices", 1)
	}
	res.Count("runs", 1)
	if entries > 0 {
		res.Shape(label, shapeOf(jr.fs.L))
	}
}

func flatVals(m map[uint64][][]byte) string {
	var all []string
	for _, l := range m {
		for _, v := range l {
			all = append(all, fmt.Sprintf("%x", v))
		}
	}
	sort.Strings(all)
	return fmt.Sprint(all)
}

// checkC13 compares the balance journal with the transfers observed by the harness's Transfer wrapper.
func checkC13(res *CaseResult, jr journalRun, label string) {
	if jr.ir.Panic != "" {
		res.Fail(Key("panic", label), "panic escaped the entry point: "+firstLine(jr.ir.Panic), jr.desc, clip(jr.ir.PanicStk, 1500))
		return
	}
	l := jr.fs.L
	want := map[common.Address]map[uint64][]*big.Int{}
	add := func(a common.Address, idx uint64, v *big.Int) {
		if want[a] == nil {
			want[a] = map[uint64][]*big.Int{}
		}
		lst := want[a][idx]
		if len(lst) > 0 && lst[len(lst)-1].Cmp(v) == 0 {
			return
		}
		want[a][idx] = append(lst, v)
	}
	transfers := int64(0)
	for i := range l.Events {
		e := &l.Events[i]
		if e.K != h.KTransfer {
			continue
		}
		transfers++
		// the host's transfer function may only be invoked on entering a CALL or CREATE frame
		for j := i + 1; j < len(l.Events); j++ {
			n := &l.Events[j]
			if n.K == h.KMut || n.K == h.KSnapshot || n.K == h.KRevert {
				continue
			}
			okEntry := n.K == h.KStart || (n.K == h.KEnter && (n.Typ == h.CALL || n.Typ == h.CREATE || n.Typ == h.CREATE2))
			if !okEntry {
				res.Fail(Key("transfer-outside-call-entry", label), fmt.Sprintf("a value transfer (and its balance journal entries) was made outside the entry of a CALL/CREATE frame: next event %s", n.Short()), jr.desc, e.Short())
			}
			break
		}
		idx := uint64(0)
		if c := jr.sh.CurAt[e.Seq]; c >= 0 {
			idx = uint64(c)
		}
		if e.From == e.To {
			res.Count("self_transfers", 1)
		}
		if e.Amount.Sign() == 0 {
			res.Count("zero_value_transfers", 1)
		}
		add(e.From, idx, e.Bal[0])
		add(e.To, idx, e.Bal[1])
		add(e.From, idx, e.Bal[2])
		add(e.To, idx, e.Bal[3])
	}
	_, got := dumpJournal(jr.fs.EVM.Tracer().VerifDump())
	sc := jr.fs.EVM.Tracer().StateChanges()
	accts := map[common.Address]bool{}
	for a := range want {
		accts[a] = true
	}
	for a := range got {
		accts[a] = true
	}
	for a := range accts {
		w := "<nil>"
		if want[a] != nil {
			w = keyreg.CanonBal(want[a])
		}
		g := "<nil>"
		if got[a] != nil {
			conv := map[uint64][]*big.Int{}
			for i, lst := range got[a] {
				for _, v := range lst {
					conv[i] = append(conv[i], new(big.Int).SetBytes(v))
				}
			}
			g = keyreg.CanonBal(conv)
		}
		if g != w {
			rule := "wrong-balances"
			if want[a] == nil {
				rule = "entry-without-transfer"
			} else if got[a] == nil {
				rule = "transfer-not-recorded"
			}
			res.Fail(Key(rule, label), "balance journal differs from the balances observed around each transfer (per call index: sender before, recipient before, sender after, recipient after; repeats collapsed)",
				jr.desc, "account "+a.Hex(), "recorded: "+clip(g, 500), "observed: "+clip(w, 500))
			continue
		}
		if q := canonRealBal(sc.Balance(a)); q != w {
			res.Fail(Key("query-differs", label), "Balance() query disagrees with the dump", jr.desc, a.Hex(), q, w)
		}
	}
	res.Count("transfers_checked", transfers)
	res.Count("runs", 1)
	if transfers > 1 {
		res.Shape(label, shapeOf(l))
	}
}

func journalCases(seed uint64, tier string, salt uint64) []Case {
	n := 250
	if !quick(tier) {
		n = 4000
	}
	var cs []Case
	for i := 0; i < n; i++ {
		cs = append(cs, Case{Kind: "tree", Seed: h.Mix(seed, salt, uint64(i))})
	}
	return cs
}

// transferTargets: one contract sends value (0, 1, 7, more than it has) by CALL and CALLCODE to every kind of
// address a transfer can name - the zero address, standard and Artela precompiles (succeeding and failing),
// itself, the coinbase, the transaction sender and origin, an empty account, an address that does not exist -
// and is itself invoked by different senders, the zero address included.
func transferTargets(c Case, res *CaseResult, each func(jr journalRun, label string)) {
	fork := h.Fork(c.P[0])
	r := h.NewRNG(c.Seed)
	targets := []common.Address{{}, common.BytesToAddress([]byte{1}), common.BytesToAddress([]byte{2}), common.BytesToAddress([]byte{4}), common.BytesToAddress([]byte{6}), common.BytesToAddress([]byte{9}),
		common.BytesToAddress([]byte{0x64}), common.BytesToAddress([]byte{0x66}), h.ContractAddr(0), h.ContractAddr(1), h.Coinbase, h.Sender, h.Origin, h.EmptyAcct, h.Nobody, h.EOARich}
	for _, from := range []common.Address{h.Sender, {}, h.ContractAddr(1)} {
		a := h.NewAsm()
		n := 0
		for _, t := range targets {
			for _, kind := range []byte{h.CALL, h.CALLCODE} {
				if !r.Chance(70) {
					continue
				}
				val := []uint64{0, 1, 7, 1 << 40}[r.Intn(4)]
				inLen := []uint64{0, 1, 64, 213}[r.Intn(4)] // (213 zero bytes: an invalid blake2f input; 64: a bn256 point)
				a.PushU(32).PushU(0x400).PushU(inLen).PushU(0).PushU(val).PushAddr(t).PushU(uint64(20000+r.Intn(60000))).Op(kind, h.POP)
				n++
			}
		}
		a.Op(h.STOP)
		callee := h.NewAsm().PushU(1).PushU(0).Op(h.SSTORE, h.STOP)
		w := h.BaseWorld([][]byte{a.Bytes(), callee.Bytes()})
		w.Set(h.Acct{Addr: common.Address{}, Balance: big.NewInt(1_000_000), Nonce: 0})
		sc := &scenario{Fork: fork, NContract: 2, World: w, Tx: h.TxSpec{Entry: h.ECall, From: from, To: h.ContractAddr(0), Input: []byte{1}, Gas: 5_000_000, Value: big.NewInt(int64(r.Intn(3)))}}
		fs := h.NewForkSession(sc.World, h.EnvSpec{Fork: sc.Fork}, h.ForkOpts{Debug: true, RecSteps: true, JoinPoints: c.Seed%2 == 0})
		sj := attachShadowJournal(fs)
		ir := fs.Invoke(sc.Tx)
		jr := journalRun{fs: fs, sj: sj, ir: ir, desc: fmt.Sprintf("transfer targets fork=%s sender=%s calls=%d seed=%d", fork, from.Hex(), n, c.Seed)}
		if ir.Panic == "" {
			jr.sh = buildShadow(fs.L, fs.Rules.IsEIP150)
		}
		each(jr, "targets")
		res.Count("special_target_runs", 1)
		res.Evals++
	}
}

// transferCoincidences: amounts chosen so that balances coincide - the recipient ends with exactly what the sender had,
// an account hands over its whole balance, two parties end equal, amounts equal to a balance - with small numbers
// (where such coincidences are likely) and with numbers beyond 64 bits.
func transferCoincidences(c Case, res *CaseResult, each func(jr journalRun, label string)) {
	fork := h.Fork(c.P[0])
	for _, scale := range []*big.Int{big.NewInt(1), new(big.Int).Lsh(big.NewInt(1), 70)} {
		mul := func(v int64) *big.Int { return new(big.Int).Mul(big.NewInt(v), scale) }
		x, y := common.BytesToAddress([]byte{0xc1, 1}), common.BytesToAddress([]byte{0xc1, 2})
		a := h.NewAsm()
		send := func(to common.Address, v int64) {
			val, _ := uint256.FromBig(mul(v))
			a.PushU(0).PushU(0).PushU(0).PushU(0).Push(val).PushAddr(to).PushU(30000).Op(h.CALL, h.POP)
		}
		// contract holds 10, x holds 4, y does not exist
		send(x, 6)                 // 4+6 == 10 (what the sender had)
		send(y, 4)                 // whole balance to a new account
		send(x, 0)                 // nothing left
		send(h.ContractAddr(1), 0) // callee pays back 5 below
		send(x, 5)                 // 10+5 vs 5: equal to what the sender has
		send(y, 0)
		a.Op(h.STOP)
		callee := h.NewAsm()
		{
			val, _ := uint256.FromBig(mul(5))
			callee.PushU(0).PushU(0).PushU(0).PushU(0).Push(val).Op(h.CALLER).PushU(30000).Op(h.CALL, h.POP, h.STOP)
		}
		w := h.BaseWorld([][]byte{a.Bytes(), callee.Bytes()})
		w.Get(h.ContractAddr(0)).Balance = mul(10)
		w.Get(h.ContractAddr(1)).Balance = mul(5)
		w.Set(h.Acct{Addr: x, Balance: mul(4)})
		sc := &scenario{Fork: fork, NContract: 2, World: w, Tx: h.TxSpec{Entry: h.ECall, From: h.Sender, To: h.ContractAddr(0), Input: []byte{1}, Gas: 3_000_000, Value: new(big.Int)}}
		fs := h.NewForkSession(sc.World, h.EnvSpec{Fork: sc.Fork}, h.ForkOpts{Debug: true, RecSteps: true})
		sj := attachShadowJournal(fs)
		ir := fs.Invoke(sc.Tx)
		jr := journalRun{fs: fs, sj: sj, ir: ir, desc: fmt.Sprintf("balance coincidences fork=%s unit=%v", fork, scale)}
		if ir.Panic == "" {
			jr.sh = buildShadow(fs.L, fs.Rules.IsEIP150)
		}
		each(jr, "coincidences")
		res.Count("coincidence_runs", 1)
		res.Evals++
	}
}

func journalWorkload(c Case, res *CaseResult, each func(jr journalRun, label string)) {
	if c.Kind == "targets" {
		transferTargets(c, res, each)
		transferCoincidences(c, res, each)
		return
	}
	sc, r := journalScenario(c.Seed, c10Kinds, h.Frontier, h.Cancun)
	jr := runJournalScenario(sc, nil, false)
	each(jr, "plain")
	// with Aspects bound and one join-point failure
	plan := bindPlan(r, sc, 40, []uint32{0, 10}, 0)
	jr2 := runJournalScenario(sc, plan, true)
	each(jr2, "aspects")
	fir := firingsOf(jr2.fs.L)
	if len(fir) > 0 {
		f := fir[int(c.Seed%uint64(len(fir)))]
		p := clonePlan(plan)
		p.FailAt[f.idx] = injectedErr(int(c.Seed>>8) % 4)
		jr3 := runJournalScenario(sc, p, true)
		each(jr3, "jpfail")
	}
	// two transactions on one EVM object with EVM.Reset in between (how a chain reuses an EVM inside a block):
	// the journal of both must be attributed through the same call tree
	{
		fs := h.NewForkSession(sc.World, h.EnvSpec{Fork: sc.Fork}, h.ForkOpts{Debug: true, RecSteps: true})
		sj := attachShadowJournal(fs)
		ir := fs.Invoke(sc.Tx)
		if ir.Panic == "" {
			fs.EVM.Reset(fs.EVM.TxContext, fs.EVM.StateDB)
			ir = fs.Invoke(sc.Tx)
		}
		jr4 := journalRun{fs: fs, sj: sj, ir: ir, desc: sc.desc() + " (twice on one EVM, Reset in between)"}
		if ir.Panic == "" {
			jr4.sh = buildShadow(fs.L, fs.Rules.IsEIP150)
		}
		each(jr4, "reset")
	}
	res.Evals = 4
	res.Set("forks", sc.Fork.String())
	if c.Seed%43 == 0 {
		res.Sample = map[string]interface{}{"case": c, "scenario": sc.desc()}
	}
}

func init() {
	Register(&Prop{
		ID:    "C10",
		Level: "exploration",
		Rule: "call trees mixing CALL/DELEGATECALL/CALLCODE/STATICCALL/CREATE/CREATE2 and re-entrancy, every frame registering and journaling shared variables (full word, packed field, string, mapping elements via all six key-registration opcodes) with values drawn from a 2-element set (repeats a,a,b,a), frames failing after journaling, run plain / with real Aspects / with an injected join-point failure on forks Frontier..Cancun; " +
			"a shadow tracer driven only by debug-tracer events (storage address = executing contract's address at the journal step, call index = innermost CALL/CREATE attempt from the shadow call log, value = independent decoder applied to state at that step) is compared with the COMPLETE dump of the tracer (every key with changes, so foreign or mixed entries are seen) and with the Slot() query; distinct_nontrivial = distinct event shapes of runs with at least one journal entry",
		Assumptions: []string{"journal step outcome is read from the stream (a Fault at the same pc/depth right after the Step = the instruction failed)", "decoder = models/sollayout (C09)"},
		Cases:       func(seed uint64, tier string) []Case { return journalCases(seed, tier, 0xC10) },
		Run: func(c Case, tier string) (res CaseResult) {
			journalWorkload(c, &res, func(jr journalRun, label string) { checkC10(&res, jr, label) })
			return
		},
		Floors: func(tier string) map[string]int64 {
			return map[string]int64{"runs": 500, "journal_entries_checked": 3000, "runs_with_several_accounts": 150, "runs_with_several_call_indices": 150}
		},
	})
	Register(&Prop{
		ID:    "C13",
		Level: "exploration",
		Rule: "the harness supplies the block context's Transfer function: it reads both real balances immediately before and after delegating to the genuine core.Transfer and logs them; for each observed transfer the expected balance-journal entries (per account and shadow call index: sender before, recipient before, sender after, recipient after, immediate repeats collapsed, as integers) are compared with the COMPLETE dump of account roots (no entry without a transfer) and with Balance(); " +
			"workloads: C10's call trees (values 0/1/small/more than the balance, self-calls with value, transfers to new and code-less accounts, endowments of contracts under creation, frames that later revert, injected join-point failures); distinct_nontrivial = distinct event shapes of runs with at least 2 transfers",
		Assumptions: []string{"core.Transfer and go-ethereum's StateDB balances are the ground truth", "call index from the shadow call log (the attempt whose node is open when the transfer happens)"},
		Cases: func(seed uint64, tier string) []Case {
			cs := journalCases(seed, tier, 0xC13)
			reps := 1
			if !quick(tier) {
				reps = 20
			}
			for f := h.Frontier; f <= h.Cancun; f++ {
				for k := 0; k < reps; k++ {
					cs = append(cs, Case{Kind: "targets", P: []int64{int64(f)}, Seed: h.Mix(seed, 0xC13F, uint64(f), uint64(k))})
				}
			}
			return cs
		},
		Run: func(c Case, tier string) (res CaseResult) {
			journalWorkload(c, &res, func(jr journalRun, label string) { checkC13(&res, jr, label) })
			return
		},
		Floors: func(tier string) map[string]int64 {
			return map[string]int64{"runs": 500, "transfers_checked": 1500, "zero_value_transfers": 300}
		},
	})
}
