package props

import (
	"bytes"
	"fmt"
	"sort"

	h "verif/harness"

	"github.com/ethereum/go-ethereum/common"
	"github.com/holiman/uint256"
)

// C12 — journal instructions are invisible to execution and cost a constant fee.
// Pairwise differential on the fork itself: program P (journal instruction + n-1 JUMPDEST
// padding bytes) versus P' (n POP bytes at the same place): same code length, same jump
// targets, same PCs everywhere else.

var c12Kinds = []byte{h.CALL, h.CALL, h.CALL, h.DELEGATECALL, h.CALLCODE, h.STATICCALL, h.STATICCALL}

func c12Scenario(seed uint64, mode jmode) *scenario {
	r := h.NewRNG(seed)
	o := scenOpts{FailPct: 20, ValuePct: 30, MinFork: h.Frontier, MaxFork: h.Cancun, Kinds: c12Kinds, Contracts: 2 + r.Intn(2), NoOOG: true,
		MaxDepth: 3, MaxNodes: 7, GasReqs: []uint64{0, 60_000_000, 15_000_000, 4_000_000, 1_000_000}, RootGas: 300_000_000,
		Extra: journalExtra(seed, mode, true, 70)}
	return genScenario(r, o)
}

type siteKey struct {
	code common.Address
	pc   uint64
}

func stepsOf(l *h.Log) []*h.Event {
	var out []*h.Event
	for i := range l.Events {
		if l.Events[i].K == h.KStep || l.Events[i].K == h.KFault {
			out = append(out, &l.Events[i])
		}
	}
	return out
}

func touchedState(fs *h.ForkSession, keys map[common.Address]map[common.Hash]bool) string {
	var as []common.Address
	for a := range keys {
		as = append(as, a)
	}
	sort.Slice(as, func(i, j int) bool { return bytes.Compare(as[i][:], as[j][:]) < 0 })
	var b bytes.Buffer
	for _, a := range as {
		fmt.Fprintf(&b, "%x:bal=%v,nonce=%d,exist=%v", a[:], fs.DB.GetBalance(a), fs.DB.GetNonce(a), fs.DB.Exist(a))
		var ks []common.Hash
		for k := range keys[a] {
			ks = append(ks, k)
		}
		sort.Slice(ks, func(i, j int) bool { return bytes.Compare(ks[i][:], ks[j][:]) < 0 })
		for _, k := range ks {
			fmt.Fprintf(&b, ",%x=%x", bytes.TrimLeft(k[:], "\x00"), bytes.TrimLeft(fs.DB.GetState(a, k).Bytes(), "\x00"))
		}
		b.WriteString(";")
	}
	return b.String()
}

func collectTouched(keys map[common.Address]map[common.Hash]bool, l *h.Log) {
	for i := range l.Events {
		e := &l.Events[i]
		if e.K != h.KMut {
			continue
		}
		switch e.Mut {
		case h.MAddRefund, h.MSubRefund, h.MAddPreimage, h.MAccessAddr, h.MAccessSlot:
			continue
		}
		if keys[e.Addr] == nil {
			keys[e.Addr] = map[common.Hash]bool{}
		}
		if e.Mut == h.MSetState {
			keys[e.Addr][e.Key] = true
		}
	}
}

func runC12Pair(c Case, res *CaseResult) {
	p := c12Scenario(c.Seed, jReal)
	q := c12Scenario(c.Seed, jPops)
	desc := p.desc()
	if len(p.Codes) != len(q.Codes) {
		res.Fail(Key("harness", "pair"), "pair generation diverged", desc)
		return
	}
	for i := range p.Codes {
		if len(p.Codes[i]) != len(q.Codes[i]) {
			res.Fail(Key("harness", "pair"), "pair programs differ in length", desc)
			return
		}
	}
	q.Fork = p.Fork
	run := func(sc *scenario) (*h.ForkSession, h.InvokeResult) {
		fs := h.NewForkSession(sc.World, h.EnvSpec{Fork: sc.Fork}, h.ForkOpts{Debug: true, RecSteps: true})
		ir := fs.Invoke(sc.Tx)
		return fs, ir
	}
	fp, ip := run(p)
	fq, iq := run(q)
	res.Evals = 2
	res.Set("forks", p.Fork.String())
	if ip.Panic != "" || iq.Panic != "" {
		res.Fail(Key("panic", "pair"), "panic: "+firstLine(ip.Panic+iq.Panic), desc, clip(ip.PanicStk+iq.PanicStk, 1500))
		return
	}
	// the comparison is only meaningful for gas-insensitive executions: if either run hit an out-of-gas
	// condition anywhere (the journal fees make P dearer than P'), the pair is outside the domain
	for _, l := range []*h.Log{fp.L, fq.L} {
		for i := range l.Events {
			if e := &l.Events[i]; (e.K == h.KStep || e.K == h.KFault || e.K == h.KExit || e.K == h.KEnd) && e.Err == "oog" {
				res.Count("pairs_skipped_gas_sensitive", 1)
				return
			}
		}
	}
	// journal sites executed in P
	sites := map[siteKey]bool{}
	var delta int64
	sp := stepsOf(fp.L)
	nj := 0
	halted := false
	for i, e := range sp {
		if e.K == h.KFault && e.Err != "revert" {
			halted = true
		}
		if e.K != h.KStep || !h.IsJournalOp(e.Op) {
			continue
		}
		n := h.JournalPops[e.Op]
		if e.Err != "" {
			res.Fail(Key("journal-step-error", fmt.Sprintf("op%02x", e.Op)), "a journal instruction with well-formed operands could not start: "+e.Err, desc, e.Short())
			return
		}
		if i+1 < len(sp) && sp[i+1].K == h.KFault && sp[i+1].PC == e.PC && sp[i+1].Depth == e.Depth {
			static := "nonstatic"
			res.Fail(Key("journal-op-failed", fmt.Sprintf("op%02x", e.Op), static), "a journal instruction with well-formed operands halted the frame: "+sp[i+1].ErrText, desc, e.Short())
			return
		}
		for k := 0; k < n; k++ {
			sites[siteKey{e.Code, e.PC + uint64(k)}] = true
		}
		nj++
		res.Set("journal_costs", fmt.Sprint(e.Cost))
		res.Set("journal_ops_executed", fmt.Sprintf("%02x", e.Op))
		if e.Cost == 0 {
			res.Fail(Key("zero-fee", fmt.Sprintf("op%02x", e.Op)), "journal instruction charged no fee", desc, e.Short())
		}
		delta += int64(e.Cost) + int64(n-1) - int64(2*n)
	}
	res.Count("journal_steps", int64(nj))
	res.Count("pairs", 1)
	// static frames that executed journal instructions
	for _, e := range sp {
		if e.K == h.KStep && h.IsJournalOp(e.Op) {
			// depth>1 frames entered by STATICCALL are identified by the scenario; count via readOnly not exposed per step -> count by op in static nodes
			_ = e
		}
	}
	// outcome
	if ip.ErrClass != iq.ErrClass || !bytes.Equal(ip.Ret, iq.Ret) {
		res.Fail(Key("outcome", "pair"), fmt.Sprintf("result differs from the same program with pops: err %q vs %q, ret %x vs %x", ip.ErrClass, iq.ErrClass, clipB(ip.Ret), clipB(iq.Ret)), desc)
		return
	}
	lp, lq := fp.DB.Logs(), fq.DB.Logs()
	if len(lp) != len(lq) {
		res.Fail(Key("logs", "pair"), fmt.Sprintf("log count %d vs %d", len(lp), len(lq)), desc)
	} else {
		for i := range lp {
			if lp[i].Address != lq[i].Address || !bytes.Equal(lp[i].Data, lq[i].Data) || fmt.Sprint(lp[i].Topics) != fmt.Sprint(lq[i].Topics) {
				res.Fail(Key("logs", "pair"), fmt.Sprintf("log %d differs", i), desc)
				break
			}
		}
	}
	keys := map[common.Address]map[common.Hash]bool{}
	for _, a := range p.World.Accts {
		keys[a.Addr] = map[common.Hash]bool{}
	}
	collectTouched(keys, fp.L)
	collectTouched(keys, fq.L)
	if a, b := touchedState(fp, keys), touchedState(fq, keys); a != b {
		res.Fail(Key("state", "pair"), "post-state (balances, nonces, storage) differs from the same program with pops", desc, "journal: "+clip(a, 1200), "pops:    "+clip(b, 1200))
	}
	// aligned steps
	var ap, aq []*h.Event
	for _, e := range sp {
		if !sites[siteKey{e.Code, e.PC}] {
			ap = append(ap, e)
		}
	}
	for _, e := range stepsOf(fq.L) {
		if !sites[siteKey{e.Code, e.PC}] {
			aq = append(aq, e)
		}
	}
	n := len(ap)
	if len(aq) < n {
		n = len(aq)
	}
	for i := 0; i < n; i++ {
		x, y := ap[i], aq[i]
		var d string
		switch {
		case x.K != y.K || x.PC != y.PC || x.Op != y.Op || x.Depth != y.Depth || x.Code != y.Code || x.Addr != y.Addr:
			d = fmt.Sprintf("control flow: %s vs %s", x.Short(), y.Short())
		case x.Err != y.Err:
			d = fmt.Sprintf("error %q vs %q at pc %d", x.Err, y.Err, x.PC)
		case len(x.Stack) != len(y.Stack):
			d = fmt.Sprintf("stack height %d vs %d at pc %d op %#x", len(x.Stack), len(y.Stack), x.PC, x.Op)
		case x.MemLen != y.MemLen || !bytes.Equal(x.Mem, y.Mem):
			d = fmt.Sprintf("memory differs at pc %d op %#x (len %d vs %d)", x.PC, x.Op, x.MemLen, y.MemLen)
		case !bytes.Equal(x.RData, y.RData):
			d = fmt.Sprintf("return-data buffer differs at pc %d", x.PC)
		default:
			for j := range x.Stack {
				if x.Stack[j] != y.Stack[j] {
					// the GAS opcode is not generated; stack words must be identical
					d = fmt.Sprintf("stack[%d] %s vs %s at pc %d op %#x", j, x.Stack[j].Hex(), y.Stack[j].Hex(), x.PC, x.Op)
					break
				}
			}
		}
		if d != "" {
			res.Fail(Key("visible-effect", "pair"), "execution differs from the same program with pops: "+d, desc)
			return
		}
	}
	if len(ap) != len(aq) {
		res.Fail(Key("visible-effect", "length"), fmt.Sprintf("aligned step count %d vs %d", len(ap), len(aq)), desc)
		return
	}
	res.Count("aligned_steps", int64(n))
	if !halted && ip.Err == nil {
		res.Count("gas_equations_checked", 1)
		if got := int64(iq.Gas) - int64(ip.Gas); got != delta {
			res.Fail(Key("fee", "total"), fmt.Sprintf("gas difference to the pops program is %d, expected %d = sum over %d executed journal instructions of (fee + padding - pops)", got, delta, nj), desc)
		}
	}
	if nj > 0 {
		res.Shape("pair", shapeOf(fp.L))
	}
	if c.Seed%47 == 0 {
		res.Sample = map[string]interface{}{"case": c, "scenario": desc, "journal_steps": nj, "gas_delta": delta}
	}
}

// runC12Malformed: a callee that stores, then executes a journal instruction with malformed
// operands; the frame must end like any exceptional halt: error, all gas gone, effects reverted.
func runC12Malformed(c Case, res *CaseResult) {
	fork := h.Fork(c.P[0])
	type bad struct {
		name string
		emit func(a *h.Asm)
	}
	big := new(uint256.Int).Not(h.U(0))
	bads := []bad{
		{"vvjnal-unregistered", func(a *h.Asm) { a.Journal(h.VVJNAL, h.U(77), h.U(0), h.U(32), jTypU) }},
		{"vrjnal-unregistered", func(a *h.Asm) { a.Journal(h.VRJNAL, h.U(77), jTypStr) }},
		{"vvjnal-offset32", func(a *h.Asm) {
			a.MstoreName(memJ, []byte("x")).Journal(h.VSVJNAL, h.U(memJ), h.U(20), h.U(0), jTypU)
			a.Journal(h.VVJNAL, h.U(20), h.U(32), h.U(1), jTypU)
		}},
		{"vvjnal-width33", func(a *h.Asm) {
			a.MstoreName(memJ, []byte("x")).Journal(h.VSVJNAL, h.U(memJ), h.U(20), h.U(0), jTypU)
			a.Journal(h.VVJNAL, h.U(20), h.U(0), h.U(33), jTypU)
		}},
		{"vvjnal-offset-plus-width", func(a *h.Asm) {
			a.MstoreName(memJ, []byte("x")).Journal(h.VSVJNAL, h.U(memJ), h.U(20), h.U(5), jTypU)
			a.Journal(h.VVJNAL, h.U(20), h.U(5), h.U(28), jTypU)
		}},
		{"vsvjnal-offset-huge", func(a *h.Asm) { a.MstoreName(memJ, []byte("x")).Journal(h.VSVJNAL, h.U(memJ), h.U(20), big, jTypU) }},
		{"ivvvjnal-unknown-parent", func(a *h.Asm) { a.Journal(h.IVVVJNAL, h.U(23), h.U(99), h.U(1), h.U(0), jTypU, jTypMap) }},
		{"irvrjnal-unknown-parent", func(a *h.Asm) {
			a.MstoreName(memJ, []byte("k")).Journal(h.IRVRJNAL, h.U(24), h.U(99), h.U(memJ), jTypStr, jTypArr)
		}},
		{"name-pointer-beyond-memory", func(a *h.Asm) { a.Journal(h.RSVJNAL, h.U(0x5000), h.U(20), jTypStr) }},
		{"name-length-beyond-memory", func(a *h.Asm) {
			a.PushU(0x1000).PushU(0x40).Op(h.MSTORE) // length word 4096 at the last word of memory
			a.Journal(h.VSVJNAL, h.U(0x40), h.U(20), h.U(0), jTypU)
		}},
		{"key-pointer-straddles-memory-end", func(a *h.Asm) {
			a.MstoreName(memJ, []byte("m")).Journal(h.RSVJNAL, h.U(memJ), h.U(23), jTypMap)
			a.Journal(h.IRVVJNAL, h.U(23), h.U(99), h.U(memJ+0x30), h.U(0), jTypU, jTypMap) // memory ends at memJ+0x40
		}},
		{"vrjnal-bad-encoding", func(a *h.Asm) {
			a.MstoreName(memJ, []byte("s")).Journal(h.RSVJNAL, h.U(memJ), h.U(22), jTypStr)
			a.PushU(0x81).PushU(22).Op(h.SSTORE) // odd (long form) with length 64 < ... 0x81 = 2*64+1 -> valid long; use 0x41: short form flag even with len 32
			a.PushU(0x40).PushU(22).Op(h.SSTORE)
			a.Journal(h.VRJNAL, h.U(22), jTypStr)
		}},
	}
	// systematically: every operand that is an in-word offset, out of range in each way (32, 255, and values whose low
	// 64 bits look valid), and every operand that is a memory pointer, pointing beyond / across the end of memory or at
	// an oversized length word - for each instruction that takes one, with its parent key properly registered
	p2 := func(k uint) *uint256.Int { return new(uint256.Int).Lsh(h.U(1), k) }
	for i, off := range []*uint256.Int{h.U(32), h.U(255), new(uint256.Int).Add(p2(64), h.U(3)), p2(64), new(uint256.Int).Add(p2(128), h.U(1)), p2(255)} {
		o := off
		bads = append(bads,
			bad{fmt.Sprintf("vsvjnal-offset#%d", i), func(a *h.Asm) { a.MstoreName(memJ, []byte("x")).Journal(h.VSVJNAL, h.U(memJ), h.U(20), o, jTypU) }},
			bad{fmt.Sprintf("ivvvjnal-offset#%d", i), func(a *h.Asm) {
				a.MstoreName(memJ, []byte("m")).Journal(h.RSVJNAL, h.U(memJ), h.U(23), jTypMap)
				a.Journal(h.IVVVJNAL, h.U(23), jMapSlot(1, 23), h.U(1), o, jTypP, jTypMap)
			}},
			bad{fmt.Sprintf("irvvjnal-offset#%d", i), func(a *h.Asm) {
				a.MstoreName(memJ, []byte("arr")).Journal(h.RSVJNAL, h.U(memJ), h.U(24), jTypArr)
				a.MstoreName(memJ+0x40, []byte("key")).Journal(h.IRVVJNAL, h.U(24), jMapSlot(7, 24), h.U(memJ+0x40), o, jTypP, jTypArr)
			}})
	}
	for i, ptr := range []uint64{0x5000, memJ + 0x30, memJ + 0x20, memJ + 0x40} {
		pp := ptr
		prep := func(a *h.Asm, name string, slot uint64, typ *uint256.Int) {
			a.MstoreName(memJ, []byte(name)).Journal(h.RSVJNAL, h.U(memJ), h.U(slot), typ)
			if pp == memJ+0x20 {
				a.PushU(0x1000).PushU(memJ + 0x20).Op(h.MSTORE) // a length word far larger than memory, in the last word
			}
		}
		bads = append(bads,
			bad{fmt.Sprintf("rsvjnal-name-pointer#%d", i), func(a *h.Asm) { prep(a, "q", 30, jTypStr); a.Journal(h.RSVJNAL, h.U(pp), h.U(31), jTypStr) }},
			bad{fmt.Sprintf("vsvjnal-name-pointer#%d", i), func(a *h.Asm) { prep(a, "q", 30, jTypStr); a.Journal(h.VSVJNAL, h.U(pp), h.U(32), h.U(0), jTypU) }},
			bad{fmt.Sprintf("irvvjnal-key-pointer#%d", i), func(a *h.Asm) {
				prep(a, "arr", 24, jTypArr)
				a.Journal(h.IRVVJNAL, h.U(24), jMapSlot(7, 24), h.U(pp), h.U(0), jTypU, jTypArr)
			}},
			bad{fmt.Sprintf("irvrjnal-key-pointer#%d", i), func(a *h.Asm) {
				prep(a, "arr", 24, jTypArr)
				a.Journal(h.IRVRJNAL, h.U(24), jMapSlot(8, 24), h.U(pp), jTypStr, jTypArr)
			}})
	}
	n := int64(0)
	for _, b := range bads {
		for _, kind := range []byte{h.CALL, h.STATICCALL} {
			callee := h.NewAsm()
			if kind == h.CALL {
				callee.PushU(0x99).PushU(1).Op(h.SSTORE)
			}
			if kind == h.STATICCALL && b.name == "vrjnal-bad-encoding" {
				continue
			}
			b.emit(callee)
			callee.PushU(0x55).PushU(2).Op(h.SSTORE, h.STOP)
			caller := h.NewAsm()
			caller.PushU(0).PushU(0).PushU(0).PushU(0)
			if kind == h.CALL {
				caller.PushU(0)
			}
			caller.PushAddr(h.ContractAddr(1)).PushU(200000).Op(kind).PushU(5).Op(h.SSTORE, h.STOP)
			w := h.BaseWorld([][]byte{caller.Bytes(), callee.Bytes()})
			fs := h.NewForkSession(w, h.EnvSpec{Fork: fork}, h.ForkOpts{Debug: true, RecSteps: true, LightMem: true})
			if kind == h.STATICCALL && fork < h.Byzantium {
				continue
			}
			ir := fs.Invoke(h.TxSpec{Entry: h.ECall, From: h.Sender, To: h.ContractAddr(0), Gas: 1_000_000})
			n++
			desc := fmt.Sprintf("malformed %s via %#x fork=%s", b.name, kind, fork)
			res.Count("malformed_cases", 1)
			res.Shape("malformed", b.name, kind, fork)
			if ir.Panic != "" {
				res.Fail(Key("panic", "malformed", b.name), "malformed journal operands panicked: "+firstLine(ir.Panic), desc, clip(ir.PanicStk, 1200))
				continue
			}
			roots, _ := buildFrames(fs.L)
			if len(roots) != 1 || len(roots[0].children) != 1 || roots[0].children[0].exit == nil {
				res.Fail(Key("harness", "malformed"), "unexpected frame structure", desc)
				continue
			}
			ch := roots[0].children[0]
			if ch.exit.ErrVal == nil {
				res.Fail(Key("malformed-accepted", b.name), "a journal instruction with malformed operands did not halt the frame", desc)
				continue
			}
			if ch.exit.GasUsed != ch.enter.Gas {
				res.Fail(Key("malformed-gas", b.name), fmt.Sprintf("the halted frame used %d of %d gas (an exceptional halt consumes all)", ch.exit.GasUsed, ch.enter.Gas), desc)
			}
			if v := fs.DB.GetState(h.ContractAddr(1), h.HashU(1)); v != (common.Hash{}) {
				res.Fail(Key("malformed-state", b.name), "effects of the halted frame were not reverted", desc)
			}
			if v := fs.DB.GetState(h.ContractAddr(0), h.HashU(5)); v != (common.Hash{}) {
				res.Fail(Key("malformed-flag", b.name), "the caller saw success", desc)
			}
		}
	}
	res.Evals = n
}

// runC12DeepStack: a journal instruction only pops, so it must execute at every stack height up to the
// limit exactly like its operand pops do.
func runC12DeepStack(c Case, res *CaseResult) {
	op := byte(c.P[0])
	n := h.JournalPops[op]
	var ops []*uint256.Int
	switch op {
	case h.RSVJNAL:
		ops = []*uint256.Int{h.U(memJ), h.U(20), jTypStr}
	case h.VSVJNAL:
		ops = []*uint256.Int{h.U(memJ), h.U(20), h.U(0), jTypU}
	case h.IRVVJNAL:
		ops = []*uint256.Int{h.U(23), h.U(99), h.U(memJ), h.U(0), jTypU, jTypMap}
	case h.IRVRJNAL:
		ops = []*uint256.Int{h.U(23), h.U(98), h.U(memJ), jTypStr, jTypMap}
	case h.IVVVJNAL:
		ops = []*uint256.Int{h.U(23), h.U(97), h.U(5), h.U(0), jTypU, jTypMap}
	case h.IVVRJNAL:
		ops = []*uint256.Int{h.U(23), h.U(96), h.U(6), jTypStr, jTypMap}
	case h.VVJNAL:
		ops = []*uint256.Int{h.U(20), h.U(0), h.U(32), jTypU}
	case h.VRJNAL:
		ops = []*uint256.Int{h.U(22), jTypStr}
	}
	cnt := int64(0)
	for _, total := range []int{n, 500, 1000, 1019, 1020, 1021, 1023, 1024} {
		for _, f := range []h.Fork{h.Frontier, h.Berlin, h.Cancun} {
			build := func(mode jmode) []byte {
				a := h.NewAsm()
				a.MstoreName(memJ, []byte("q"))
				// registrations the instruction under test depends on (done at low stack height)
				jop(a, mode, true, h.RSVJNAL, h.U(memJ), h.U(23), jTypMap)
				jop(a, mode, true, h.VSVJNAL, h.U(memJ), h.U(20), h.U(0), jTypU)
				jop(a, mode, true, h.RSVJNAL, h.U(memJ), h.U(22), jTypStr)
				for i := 0; i < total-n; i++ {
					a.Op(h.PC)
				}
				jop(a, mode, true, op, ops...)
				a.Op(h.STOP)
				return a.Bytes()
			}
			run := func(code []byte) h.InvokeResult {
				fs := h.NewForkSession(h.BaseWorld([][]byte{code}), h.EnvSpec{Fork: f}, h.ForkOpts{})
				return fs.Invoke(h.TxSpec{Entry: h.ECall, From: h.Sender, To: h.ContractAddr(0), Gas: 2_000_000})
			}
			ip, iq := run(build(jReal)), run(build(jPops))
			cnt += 2
			res.Count("deep_stack_pairs", 1)
			res.Shape("deepstack", op, total, f, ip.ErrClass)
			desc := fmt.Sprintf("journal op %#x executed with %d words on the stack (its %d operands included), fork %s", op, total, n, f)
			if ip.Panic != "" {
				res.Fail(Key("panic", "deepstack"), "panic: "+firstLine(ip.Panic), desc, clip(ip.PanicStk, 1200))
				continue
			}
			if ip.ErrClass != iq.ErrClass {
				res.Fail(Key("stack-height", fmt.Sprintf("op%02x", op)), fmt.Sprintf("the journal program ends with %q, the same program with pops with %q", ip.ErrClass, iq.ErrClass), desc)
			}
		}
	}
	res.Evals = cnt
}

func init() {
	Register(&Prop{
		ID:    "C12",
		Level: "exploration",
		Rule: "kind pair: a generated call tree (CALL/DELEGATECALL/CALLCODE/STATICCALL frames, static and non-static, reverting and halting frames, forks Frontier..Cancun) whose frames contain register+journal gadgets using all eight journal opcodes with well-formed operands is assembled twice: P with the journal byte followed by n-1 JUMPDEST bytes, P' with n POP bytes; both run on the real VM with full step recording; result, logs, post-state and every aligned step (pc, op, depth, full stack, memory, return-data buffer) must be identical, every journal step must cost the same non-zero constant, and (runs without exceptional halts) leftover(P')-leftover(P) = sum of (fee + (n-1) - 2n); " +
			"kind deepstack: every journal opcode at stack heights n..1024 on 3 forks must behave like its pops; kind malformed: per fork, 12 hand-written malformed operand sets plus, for every instruction taking an in-word offset or a memory pointer, that operand out of range in each way (32, 255, 2^64+3, 2^64, 2^128+1, 2^255; pointer beyond / across the end of memory, oversized length word) with the parent key registered (unregistered keys, offset 32, width 33, offset+width>32, huge offset, unknown parents, bad string encoding, name pointer / length / key pointer outside the frame's memory) x CALL/STATICCALL: the frame must halt with an error, use all its gas, have its effects reverted and the caller must see 0; a cross-case check requires ONE fee value over all forks; distinct_nontrivial = distinct event shapes of pairs with at least one journal step + malformed combinations",
		Assumptions: []string{"programs are gas- and code-insensitive by construction (no GAS/CODECOPY/EXTCODE*, ample explicit call gas, no creates)", "well-formed = registered key, offset<=31, width<=32, offset+width<=32, valid string encoding (C09/C11 models)"},
		Cases: func(seed uint64, tier string) []Case {
			n := 400
			if !quick(tier) {
				n = 60000
			}
			var cs []Case
			for i := 0; i < n; i++ {
				cs = append(cs, Case{Kind: "pair", Seed: h.Mix(seed, 0xC12, uint64(i))})
			}
			for f := h.Frontier; f <= h.Cancun; f++ {
				cs = append(cs, Case{Kind: "malformed", P: []int64{int64(f)}})
			}
			for _, op := range allJournalOps {
				cs = append(cs, Case{Kind: "deepstack", P: []int64{int64(op)}})
			}
			return cs
		},
		Run: func(c Case, tier string) (res CaseResult) {
			switch c.Kind {
			case "pair":
				runC12Pair(c, &res)
			case "deepstack":
				runC12DeepStack(c, &res)
			default:
				runC12Malformed(c, &res)
				runC12ExactGas(c, &res)
			}
			return
		},
		Finish: func(agg *Agg, tier string) []Finding {
			var out []Finding
			if s := agg.Sets["journal_costs"]; len(s) != 1 {
				var vs []string
				for v := range s {
					vs = append(vs, v)
				}
				sort.Strings(vs)
				out = append(out, Finding{Key: Key("fee", "not-constant"), Msg: fmt.Sprintf("journal instructions were charged %d different fees across operands/forks: %v", len(s), vs)})
			}
			if s := agg.Sets["journal_ops_executed"]; len(s) < 8 {
				out = append(out, Finding{Key: Key("harness", "coverage"), Msg: fmt.Sprintf("only %d of 8 journal opcodes executed", len(s))})
			}
			return out
		},
		Floors: func(tier string) map[string]int64 {
			return map[string]int64{"pairs": 300, "journal_steps": 3000, "aligned_steps": 50000, "gas_equations_checked": 40, "malformed_cases": 150}
		},
	})
}

// runC12ExactGas: the fee of a journal instruction is all it needs. A frame is given exactly the gas its program
// consumes with ample gas, and 1, 700, 1500, 2299 more: it must finish the same way and use the same amount (a fee
// that depends on how much gas is left - a stipend-style sentry, a reserve - would show here).
func runC12ExactGas(c Case, res *CaseResult) {
	fork := h.Fork(c.P[0])
	progs := map[string]func(a *h.Asm){
		"register+journal value": func(a *h.Asm) {
			a.MstoreName(memJ, []byte("x")).Journal(h.VSVJNAL, h.U(memJ), h.U(20), h.U(0), jTypU)
			a.Journal(h.VVJNAL, h.U(20), h.U(0), h.U(32), jTypU)
		},
		"register+journal string": func(a *h.Asm) {
			a.MstoreName(memJ, []byte("s")).Journal(h.RSVJNAL, h.U(memJ), h.U(22), jTypStr)
			a.Journal(h.VRJNAL, h.U(22), jTypStr)
		},
		"mapping element": func(a *h.Asm) {
			a.MstoreName(memJ, []byte("m")).Journal(h.RSVJNAL, h.U(memJ), h.U(23), jTypMap)
			a.Journal(h.IVVVJNAL, h.U(23), jMapSlot(1, 23), h.U(1), h.U(0), jTypU, jTypMap)
			a.Journal(h.IVVRJNAL, h.U(23), jMapSlot(2, 23), h.U(2), jTypStr, jTypMap)
			a.Journal(h.VVJNAL, jMapSlot(1, 23), h.U(0), h.U(32), jTypU)
		},
		"keyed elements": func(a *h.Asm) {
			a.MstoreName(memJ, []byte("arr")).Journal(h.RSVJNAL, h.U(memJ), h.U(24), jTypArr)
			a.MstoreName(memJ+0x40, []byte("key")).Journal(h.IRVVJNAL, h.U(24), jMapSlot(7, 24), h.U(memJ+0x40), h.U(0), jTypU, jTypArr)
			a.Journal(h.IRVRJNAL, h.U(24), jMapSlot(8, 24), h.U(memJ+0x40), jTypStr, jTypArr)
		},
	}
	for name, emit := range progs {
		a := h.NewAsm()
		emit(a)
		a.Op(h.STOP)
		w := h.BaseWorld([][]byte{a.Bytes()})
		run := func(gas uint64) (h.InvokeResult, int) {
			fs := h.NewForkSession(w, h.EnvSpec{Fork: fork}, h.ForkOpts{Debug: true, RecSteps: true, LightMem: true})
			ir := fs.Invoke(h.TxSpec{Entry: h.ECall, From: h.Sender, To: h.ContractAddr(0), Gas: gas})
			n := 0
			for i := range fs.L.Events {
				if e := &fs.L.Events[i]; e.K == h.KStep && h.IsJournalOp(e.Op) && e.Err == "" {
					n++
				}
			}
			return ir, n
		}
		ample, nj := run(1_000_000)
		if ample.Panic != "" || ample.Err != nil {
			res.Fail(Key("journal-op-failed", "exactgas"), fmt.Sprintf("a well-formed journal program failed with ample gas: %v %s", ample.Err, firstLine(ample.Panic)), name, fork.String())
			continue
		}
		used := 1_000_000 - ample.Gas
		for _, slack := range []uint64{0, 1, 700, 801, 1500, 2299, 2300, 2301} {
			ir, n := run(used + slack)
			res.Count("exact_gas_runs", 1)
			res.Evals++
			if ir.Panic != "" || ir.Err != nil || ir.Gas != slack || n != nj {
				res.Fail(Key("fee-depends-on-gas-left", "exactgas"), fmt.Sprintf("program '%s' consumes %d gas with ample gas; given %d+%d it ended with err=%v, %d gas left, %d of %d journal instructions executed", name, used, used, slack, ir.Err, ir.Gas, n, nj), fork.String())
			}
		}
	}
}
