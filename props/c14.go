package props

import (
	"bytes"
	"errors"
	"fmt"
	"math/big"

	h "verif/harness"
	"verif/models/abibytes"

	"github.com/ethereum/go-ethereum/common"
	"github.com/holiman/uint256"
)

// C14 — Artela precompiles decode payloads exactly and attribute writes to the caller.

var (
	addrCtxRead  = common.BytesToAddress([]byte{100})
	addrOpSender = common.BytesToAddress([]byte{101})
	addrCtxWrite = common.BytesToAddress([]byte{102})
)

const c14Out = 0x4000

// c14Last builds the contract that performs <kind> to the precompile with its whole calldata
// and returns flag (32 bytes) followed by the precompile's return data.
func c14Last(kind byte, target common.Address, gas uint64, fork h.Fork) []byte {
	a := h.NewAsm()
	a.Op(h.CALLDATASIZE).PushU(0).PushU(0).Op(h.CALLDATACOPY)
	a.PushU(0).PushU(0).Op(h.CALLDATASIZE).PushU(0)
	if kind == h.CALL || kind == h.CALLCODE {
		a.PushU(0)
	}
	a.PushAddr(target).PushU(gas).Op(kind)
	a.PushU(c14Out).Op(h.MSTORE)
	if fork >= h.Byzantium {
		a.Op(h.RETURNDATASIZE).PushU(0).PushU(c14Out + 32).Op(h.RETURNDATACOPY)
		a.Op(h.RETURNDATASIZE).PushU(32).Op(h.ADD).PushU(c14Out).Op(h.RETURN)
	} else {
		a.PushU(32).PushU(c14Out).Op(h.RETURN)
	}
	return a.Bytes()
}

// c14Forwarder CALLs next with the whole calldata and returns whatever next returned.
func c14Forwarder(next common.Address) []byte {
	a := h.NewAsm()
	a.Op(h.CALLDATASIZE).PushU(0).PushU(0).Op(h.CALLDATACOPY)
	a.PushU(0).PushU(0).Op(h.CALLDATASIZE).PushU(0).PushU(0).PushAddr(next).PushU(2_000_000).Op(h.CALL, h.POP)
	a.Op(h.RETURNDATASIZE).PushU(0).PushU(0).Op(h.RETURNDATACOPY)
	a.Op(h.RETURNDATASIZE).PushU(0).Op(h.RETURN)
	return a.Bytes()
}

type c14Obs struct {
	ir        h.InvokeResult
	flag      bool
	ret       []byte
	gets      []*h.Event
	sets      []*h.Event
	jits      []*h.Event
	gasUsed   uint64
	gasGiven  uint64
	pcErr     string
	hasFrame  bool
	lastAddr  common.Address
	hostValue []byte
	hostAddr  common.Address
}

var errHost = errors.New("host refused")

func c14Run(fork h.Fork, kind byte, target common.Address, payload []byte, depth int, gas uint64, hostFails bool) c14Obs {
	codes := make([][]byte, depth)
	for i := 0; i < depth-1; i++ {
		codes[i] = c14Forwarder(h.ContractAddr(i + 1))
	}
	codes[depth-1] = c14Last(kind, target, gas, fork)
	w := h.BaseWorld(codes)
	fs := h.NewForkSession(w, h.EnvSpec{Fork: fork}, h.ForkOpts{Debug: true, RecSteps: false})
	o := c14Obs{lastAddr: h.ContractAddr(depth - 1), hostAddr: common.HexToAddress("0xa5a5000000000000000000000000000000001234")}
	fs.X.CtxGet = func(aspectId common.Address, key string) ([]byte, error) {
		if hostFails {
			return nil, errHost
		}
		o.hostValue = append([]byte("value-of:"), []byte(key)...)
		return o.hostValue, nil
	}
	fs.X.CtxSet = func(aspectId common.Address, key string, value []byte) error {
		if hostFails {
			return errHost
		}
		return nil
	}
	fs.X.JITSender = func(hh common.Hash) (common.Address, error) {
		if hostFails {
			return common.Address{}, errHost
		}
		return o.hostAddr, nil
	}
	o.ir = fs.Invoke(h.TxSpec{Entry: h.ECall, From: h.Sender, To: h.ContractAddr(0), Input: payload, Gas: 8_000_000})
	if len(o.ir.Ret) >= 32 {
		o.flag = new(big.Int).SetBytes(o.ir.Ret[:32]).Sign() != 0
		o.ret = o.ir.Ret[32:]
	}
	var open *h.Event
	for i := range fs.L.Events {
		e := &fs.L.Events[i]
		switch e.K {
		case h.KCtxGet:
			o.gets = append(o.gets, e)
		case h.KCtxSet:
			o.sets = append(o.sets, e)
		case h.KJITSender:
			o.jits = append(o.jits, e)
		case h.KEnter:
			if e.To == target {
				open = e
			}
		case h.KExit:
			if open != nil {
				o.hasFrame, o.gasGiven, o.gasUsed, o.pcErr = true, open.Gas, e.GasUsed, e.ErrText
				open = nil
			}
		}
	}
	return o
}

func kindName(k byte) string {
	return map[byte]string{h.CALL: "CALL", h.CALLCODE: "CALLCODE", h.DELEGATECALL: "DELEGATECALL", h.STATICCALL: "STATICCALL"}[k]
}

var c14HeadWords = func() []*big.Int {
	p := func(k uint) *big.Int { return new(big.Int).Lsh(big.NewInt(1), k) }
	return []*big.Int{big.NewInt(0), big.NewInt(0x20), big.NewInt(0x40), big.NewInt(0x60), p(31), p(32), p(63), new(big.Int).Sub(p(64), big.NewInt(32)), new(big.Int).Sub(p(64), big.NewInt(16)),
		new(big.Int).Sub(p(64), big.NewInt(1)), p(64), new(big.Int).Add(p(64), big.NewInt(0x40)), new(big.Int).Add(p(64), big.NewInt(2)), p(128), new(big.Int).Add(p(128), big.NewInt(0x40)), p(255), new(big.Int).Add(p(255), big.NewInt(2)), big256m1()}
}()

func setWord(b []byte, at int, v *big.Int) {
	if at+32 > len(b) {
		return
	}
	v.FillBytes(b[at : at+32])
}

func c14Check(res *CaseResult, fork h.Fork, kind byte, target common.Address, payload []byte, depth int, gas uint64, hostFails bool) {
	o := c14Run(fork, kind, target, payload, depth, gas, hostFails)
	pc := fmt.Sprintf("0x%02x", target[19])
	desc := fmt.Sprintf("fork=%s %s to %s from depth %d gas=%d hostFails=%v payload(%d)=%x", fork, kindName(kind), pc, depth, gas, hostFails, len(payload), payload)
	desc = clip(desc, 1200)
	res.Count("calls", 1)
	if o.ir.Panic != "" {
		res.Fail(Key("panic", pc, kindName(kind)), "precompile call panicked: "+firstLine(o.ir.Panic), desc, clip(o.ir.PanicStk, 1500))
		return
	}
	ncb := len(o.gets) + len(o.sets) + len(o.jits)
	if fork < h.Berlin {
		res.Count("pre_berlin_calls", 1)
		res.Shape("preberlin", pc, kindName(kind))
		if ncb != 0 {
			res.Fail(Key("callback-before-berlin", pc), "a host callback was invoked although the precompile does not exist before Berlin", desc)
		}
		return
	}
	if !o.hasFrame {
		res.Fail(Key("harness", "noframe"), "the precompile frame was not observed", desc)
		return
	}
	if gas < 5000 {
		res.Shape("lowgas", pc)
		if ncb != 0 {
			res.Fail(Key("callback-without-fee", pc), "a host callback was invoked although the fixed fee could not be paid", desc)
		}
		if o.flag {
			res.Fail(Key("success-without-fee", pc), "call succeeded with less gas than the fixed fee", desc)
		}
		return
	}
	accepted := o.flag
	// the expected host interaction
	var valid, definitelyInvalid bool
	var wantCheck func() string
	class := ""
	switch target {
	case addrCtxRead:
		valid = len(payload) >= 20
		definitelyInvalid = !valid
		class = map[bool]string{true: "ok", false: "short"}[valid]
		wantCheck = func() string {
			if len(o.gets) != 1 || len(o.sets)+len(o.jits) != 0 {
				return fmt.Sprintf("%d read callbacks (expected exactly one)", len(o.gets))
			}
			g := o.gets[0]
			if g.Addr != common.BytesToAddress(payload[:20]) || g.CtxKey != string(payload[20:]) {
				return fmt.Sprintf("host was asked for address %s key %x, payload holds address %x key %x", g.Addr.Hex(), g.CtxKey, payload[:20], payload[20:])
			}
			if !hostFails && !bytes.Equal(o.ret, o.hostValue) {
				return fmt.Sprintf("returned %x, host returned %x", clipB(o.ret), clipB(o.hostValue))
			}
			return ""
		}
	case addrOpSender:
		valid = len(payload) == 32
		definitelyInvalid = !valid
		class = map[bool]string{true: "ok", false: "len-not-32"}[valid]
		if len(payload) == 0 {
			class = "empty"
		}
		wantCheck = func() string {
			if len(o.jits) != 1 || len(o.sets)+len(o.gets) != 0 {
				return fmt.Sprintf("%d sender callbacks (expected exactly one)", len(o.jits))
			}
			if o.jits[0].Key != common.BytesToHash(payload) {
				return fmt.Sprintf("host was asked for hash %x, payload is %x", o.jits[0].Key, payload)
			}
			if !hostFails && !bytes.Equal(o.ret, o.hostAddr.Hash().Bytes()) {
				return fmt.Sprintf("returned %x, host returned %s", clipB(o.ret), o.hostAddr.Hex())
			}
			return ""
		}
	case addrCtxWrite:
		key, value, cls := abibytes.Decode(payload)
		valid = cls == abibytes.Canonical
		definitelyInvalid = cls == abibytes.Invalid
		class = map[abibytes.Class]string{abibytes.Invalid: "invalid", abibytes.Canonical: "ok", abibytes.NonCanonical: "noncanonical"}[cls]
		if cls == abibytes.Invalid && len(payload) < 128 {
			class = "short"
		}
		wantCheck = func() string {
			if len(o.sets) != 1 || len(o.gets)+len(o.jits) != 0 {
				return fmt.Sprintf("%d write callbacks (expected exactly one)", len(o.sets))
			}
			s := o.sets[0]
			if s.CtxKey != string(key) || !bytes.Equal(s.Bytes, value) {
				return fmt.Sprintf("host received key %x value %x, payload encodes key %x value %x", s.CtxKey, clipB(s.Bytes), clipB(key), clipB(value))
			}
			if s.Addr != o.lastAddr {
				return fmt.Sprintf("write recorded under %s, the contract whose call reached the precompile is %s", s.Addr.Hex(), o.lastAddr.Hex())
			}
			return ""
		}
	}
	res.Shape(pc, kindName(kind), class, accepted, hostFails, depth)
	res.Set("payload_classes", pc+":"+class)
	// attribution / other call kinds on the writer: refused is fine, a wrong address never is
	for _, s := range o.sets {
		if s.Addr != o.lastAddr {
			res.Fail(Key("wrong-attribution", kindName(kind)), fmt.Sprintf("context write recorded under %s, the contract whose call reached the precompile is %s", s.Addr.Hex(), o.lastAddr.Hex()), desc)
			return
		}
	}
	refusable := target == addrCtxWrite && kind != h.CALL
	switch {
	case definitelyInvalid:
		res.Count("invalid_payloads", 1)
		if ncb != 0 {
			res.Fail(Key("callback-on-invalid", pc, class), "a host callback was invoked for a malformed payload", desc)
		}
		if accepted {
			res.Fail(Key("accepted-malformed", pc, class), "a malformed / truncated payload was reported as success instead of being rejected with an error", desc)
		} else if o.gasUsed != o.gasGiven {
			res.Fail(Key("rejected-gas", pc), fmt.Sprintf("a rejected call used %d of %d gas (a failed precompile consumes all)", o.gasUsed, o.gasGiven), desc)
		}
	case valid:
		res.Count("valid_payloads", 1)
		if !accepted {
			if hostFails {
				if refusable && ncb == 0 {
					res.Count("refused_other_call_kinds", 1)
					return
				}
				if ncb != 1 {
					res.Fail(Key("host-error-callbacks", pc), fmt.Sprintf("%d callbacks for a call the host refused", ncb), desc)
				}
				return
			}
			if refusable && ncb == 0 {
				res.Count("refused_other_call_kinds", 1)
				return
			}
			res.Fail(Key("rejected-valid", pc, kindName(kind)), "a well-formed payload was rejected: "+o.pcErr, desc)
			return
		}
		if hostFails {
			res.Fail(Key("host-error-swallowed", pc), "the host callback returned an error but the call reported success", desc)
			return
		}
		if d := wantCheck(); d != "" {
			res.Fail(Key("wrong-host-interaction", pc, kindName(kind)), "host interaction differs from the payload: "+d, desc)
		}
		if o.gasUsed != 5000 {
			res.Fail(Key("fee", pc), fmt.Sprintf("charged %d gas, the fixed fee is 5000", o.gasUsed), desc)
		}
	default: // non-canonical but in bounds: either outcome; if accepted the arguments must be the decoded ones
		res.Count("noncanonical_payloads", 1)
		if accepted && !hostFails && ncb > 0 {
			if d := wantCheck(); d != "" {
				res.Fail(Key("wrong-host-interaction", pc, "noncanonical"), "host interaction differs from the payload: "+d, desc)
			}
		}
	}
}

func init() {
	Register(&Prop{
		ID:      "C14",
		Level:   "exploration",
		Hostile: true,
		Rule: "a contract at depth 1..3 performs CALL/CALLCODE/DELEGATECALL/STATICCALL to 0x64/0x65/0x66 with a generated payload on Istanbul/Berlin/London/Shanghai/Cancun/Prague-configured chains; recording host callbacks observe exactly what the precompile hands to the host; expected interaction from strict reference decoders (models/abibytes with big-integer arithmetic for (bytes,bytes); address+key; 32-byte hash): well-formed payload -> exactly one callback with exactly those arguments, return data = host's answer, fee 5000, write recorded under the contract whose call reached the precompile (other call kinds may refuse); malformed/truncated/overflowing payload -> no callback, failure, all gas consumed; host error -> failure; pre-Berlin -> no callback. " +
			"payloads: lengths 0..400; canonical encodings with head and length words replaced by 0, 0x20, 0x40, 2^31..2^64-32, 2^64-1, 2^64, 2^64+0x40, 2^128+0x40, 2^255, 2^256-1 and len-relative values; truncations; distinct_nontrivial = distinct (precompile, call kind, payload class, outcome, depth) combinations",
		Assumptions: []string{"non-canonical but in-bounds (bytes,bytes) encodings may be accepted or rejected; if accepted the arguments must be the decoded ones", "what the host callbacks receive is observed at the process-global callback hooks the harness installs"},
		Cases: func(seed uint64, tier string) []Case {
			n := 250
			if !quick(tier) {
				n = 40000
			}
			var cs []Case
			for i := 0; i < n; i++ {
				cs = append(cs, Case{Kind: "rnd", Seed: h.Mix(seed, 0xC14, uint64(i))})
			}
			for hw := range c14HeadWords {
				cs = append(cs, Case{Kind: "head", P: []int64{int64(hw)}})
			}
			cs = append(cs, Case{Kind: "lens"})
			for i := 0; i < 12; i++ {
				cs = append(cs, Case{Kind: "multi", Seed: h.Mix(seed, 0xC14C, uint64(i))})
			}
			cs = append(cs, Case{Kind: "forkswitch"})
			for i := 0; i < 16; i++ {
				cs = append(cs, Case{Kind: "proxy", Seed: h.Mix(seed, 0xC14D, uint64(i))})
			}
			return cs
		},
		Run: runC14,
		Floors: func(tier string) map[string]int64 {
			return map[string]int64{"calls": 6000, "valid_payloads": 1500, "invalid_payloads": 2500, "pre_berlin_calls": 200}
		},
	})
}

var c14Kinds = []byte{h.CALL, h.CALLCODE, h.DELEGATECALL, h.STATICCALL}
var c14Forks = []h.Fork{h.Berlin, h.London, h.Shanghai, h.Cancun, h.Prague}

func runC14(c Case, tier string) (res CaseResult) {
	n := int64(0)
	switch c.Kind {
	case "rnd":
		r := h.NewRNG(c.Seed)
		for it := 0; it < 30; it++ {
			fork := h.Pick(r, c14Forks)
			if r.Chance(8) {
				fork = h.Istanbul
			}
			kind := h.Pick(r, c14Kinds)
			depth := 1 + r.Intn(3)
			gas := uint64(100000)
			if r.Chance(6) {
				gas = h.Pick(r, []uint64{4999, 5000, 0})
			}
			hostFails := r.Chance(6)
			var target common.Address
			var payload []byte
			switch r.Intn(3) {
			case 0:
				target = addrCtxRead
				payload = r.Bytes(h.Pick(r, []int{0, 1, 19, 20, 21, 32, 52, 100, r.Intn(400)}))
			case 1:
				target = addrOpSender
				payload = r.Bytes(h.Pick(r, []int{0, 1, 31, 32, 32, 32, 33, 64, r.Intn(100)}))
			default:
				target = addrCtxWrite
				key := r.Bytes(h.Pick(r, []int{0, 1, 31, 32, 33, 64, r.Intn(100)}))
				val := r.Bytes(h.Pick(r, []int{0, 1, 31, 32, 33, r.Intn(150)}))
				payload = abibytes.Encode(key, val)
				switch r.Intn(8) {
				case 0, 1, 2: // canonical
				case 3: // replace a head word
					setWord(payload, 32*r.Intn(2), h.Pick(r, c14HeadWords))
				case 4: // replace a length word
					if r.Bool() {
						setWord(payload, 64, h.Pick(r, c14HeadWords))
					} else {
						setWord(payload, len(payload)-32-int((int64(len(val))+31)/32*32), h.Pick(r, c14HeadWords))
					}
				case 5: // truncate
					payload = payload[:r.Intn(len(payload)+1)]
				case 6: // len-relative head words
					setWord(payload, 32*r.Intn(2), big.NewInt(int64(len(payload)-h.Pick(r, []int{0, 1, 31, 32, 33, 64}))))
				default: // random bytes of plausible size
					payload = r.Bytes(h.Pick(r, []int{0, 63, 64, 96, 127, 128, 129, 160, 256, r.Intn(400)}))
				}
			}
			c14Check(&res, fork, kind, target, payload, depth, gas, hostFails)
			n++
		}
		if c.Seed%59 == 0 {
			res.Sample = map[string]interface{}{"case": c, "kind": "30 random (fork, call kind, depth, precompile, payload) combinations"}
		}
	case "head":
		// every head/length word value at every one of the four word positions of a canonical (key=5,value=40 bytes) encoding, all call kinds
		hw := c14HeadWords[c.P[0]]
		base := abibytes.Encode([]byte("key05"), bytes.Repeat([]byte{0x7a}, 40))
		for _, pos := range []int{0, 32, 64, 128} {
			for _, kind := range c14Kinds {
				p := append([]byte{}, base...)
				setWord(p, pos, hw)
				c14Check(&res, h.Shanghai, kind, addrCtxWrite, p, 1+int(c.P[0])%3, 100000, false)
				n++
			}
		}
		if c.P[0] == 7 {
			res.Sample = map[string]interface{}{"kind": "head", "word": hw.Text(16), "positions": []int{0, 32, 64, 128}, "base": fmt.Sprintf("%x", base)}
		}
	case "lens":
		// payload lengths 0..200 for each precompile (zero bytes and canonical prefixes)
		canon := abibytes.Encode(bytes.Repeat([]byte{0x6b}, 33), bytes.Repeat([]byte{0x76}, 70))
		for l := 0; l <= 200; l++ {
			c14Check(&res, h.London, h.CALL, addrCtxRead, bytes.Repeat([]byte{0x11}, l), 1, 100000, false)
			c14Check(&res, h.London, h.CALL, addrOpSender, bytes.Repeat([]byte{0x22}, l), 2, 100000, false)
			if l <= len(canon) {
				c14Check(&res, h.London, h.CALL, addrCtxWrite, canon[:l], 1, 100000, false)
			}
			c14Check(&res, h.Istanbul, h.Pick(h.NewRNG(uint64(l)), c14Kinds), common.BytesToAddress([]byte{byte(100 + l%3)}), canon[:min(l, len(canon))], 1, 100000, false)
			n += 4
		}
	case "forkswitch":
		// one EVM object moved across the Berlin block with SetBlockContext: the precompiles exist exactly under Berlin rules
		for _, pc := range []common.Address{addrCtxRead, addrOpSender, addrCtxWrite} {
			var payload []byte
			switch pc {
			case addrCtxRead:
				payload = append(h.ContractAddr(3).Bytes(), []byte("k")...)
			case addrOpSender:
				payload = bytes.Repeat([]byte{0x31}, 32)
			default:
				payload = abibytes.Encode([]byte("k"), []byte("v"))
			}
			codes := [][]byte{c14Last(h.CALL, pc, 100000, h.Istanbul)}
			fs := h.NewForkSession(h.BaseWorld(codes), h.EnvSpec{Fork: h.Istanbul, BerlinAt: 200}, h.ForkOpts{Debug: true})
			for step, blk := range []uint64{100, 300, 100, 200, 199} {
				if step > 0 {
					fs.SetBlockNumber(blk)
				}
				before := len(fs.L.Events)
				ir := fs.Invoke(h.TxSpec{Entry: h.ECall, From: h.Sender, To: h.ContractAddr(0), Input: payload, Gas: 3_000_000})
				n++
				cb := 0
				for i := before; i < len(fs.L.Events); i++ {
					switch fs.L.Events[i].K {
					case h.KCtxGet, h.KCtxSet, h.KJITSender:
						cb++
					}
				}
				berlin := blk >= 200
				desc := fmt.Sprintf("one EVM moved by SetBlockContext to block %d (Berlin at 200), CALL to 0x%02x", blk, pc[19])
				res.Count("calls", 1)
				res.Count("fork_switch_calls", 1)
				res.Shape("forkswitch", pc, blk)
				if ir.Panic != "" {
					res.Fail(Key("panic", "forkswitch"), "panic: "+firstLine(ir.Panic), desc, clip(ir.PanicStk, 1200))
					continue
				}
				if berlin && cb != 1 {
					res.Fail(Key("precompile-missing-after-fork-switch", fmt.Sprintf("0x%02x", pc[19])), fmt.Sprintf("%d host callbacks under Berlin rules (expected 1): the precompile table did not follow the block context", cb), desc)
				}
				if !berlin && cb != 0 {
					res.Fail(Key("callback-before-berlin", fmt.Sprintf("0x%02x", pc[19])), "a host callback was invoked under pre-Berlin rules after the EVM had been moved back", desc)
				}
			}
		}
	case "proxy":
		// the code that CALLs the precompile is borrowed: a chain of proxies runs library code by DELEGATECALL / CALLCODE
		// (possibly through several hops, possibly reached through ordinary forwarders first). The call that reaches the
		// precompile is then made by the proxy at the head of the borrowing chain, whose address must own the write,
		// and whose address the read precompile must be asked about.
		r := h.NewRNG(c.Seed)
		fork := h.Pick(r, c14Forks)
		nFwd, nHop := r.Intn(2), 1+r.Intn(2)
		var codes [][]byte
		for i := 0; i < nFwd; i++ {
			codes = append(codes, c14Forwarder(h.ContractAddr(i+1)))
		}
		owner := h.ContractAddr(nFwd)
		var hops []string
		for j := 0; j < nHop; j++ {
			kind := h.Pick(r, []byte{h.DELEGATECALL, h.CALLCODE})
			hops = append(hops, kindName(kind))
			a := h.NewAsm().Op(h.CALLDATASIZE).PushU(0).PushU(0).Op(h.CALLDATACOPY)
			a.PushU(0).PushU(0).Op(h.CALLDATASIZE).PushU(0)
			if kind == h.CALLCODE {
				a.PushU(0)
			}
			a.PushAddr(h.ContractAddr(nFwd+j+1)).PushU(1_500_000).Op(kind, h.POP)
			a.Op(h.RETURNDATASIZE).PushU(0).PushU(0).Op(h.RETURNDATACOPY).Op(h.RETURNDATASIZE).PushU(0).Op(h.RETURN)
			codes = append(codes, a.Bytes())
		}
		codes = append(codes, c14Last(h.CALL, addrCtxWrite, 100000, fork))
		payload := abibytes.Encode([]byte(fmt.Sprintf("key-%d", c.Seed%97)), r.Bytes(1+r.Intn(60)))
		fs := h.NewForkSession(h.BaseWorld(codes), h.EnvSpec{Fork: fork}, h.ForkOpts{Debug: true})
		ir := fs.Invoke(h.TxSpec{Entry: h.ECall, From: h.Sender, To: h.ContractAddr(0), Input: payload, Gas: 8_000_000})
		desc := fmt.Sprintf("fork=%s %d forwarders, then %v to library code that CALLs 0x66; expected owner %s", fork, nFwd, hops, owner.Hex())
		res.Count("calls", 1)
		res.Count("valid_payloads", 1)
		res.Count("proxy_chain_writes", 1)
		res.Evals = 1
		if ir.Panic != "" {
			res.Fail(Key("panic", "0x66", "proxy"), "precompile call panicked: "+firstLine(ir.Panic), desc, clip(ir.PanicStk, 1500))
			break
		}
		var got []common.Address
		for i := range fs.L.Events {
			if e := &fs.L.Events[i]; e.K == h.KCtxSet {
				got = append(got, e.Addr)
			}
		}
		if len(got) != 1 || got[0] != owner {
			res.Fail(Key("wrong-attribution", "proxy"), "a context write made by borrowed code was not recorded (exactly once) under the contract whose call reached the precompile", desc, fmt.Sprintf("recorded under: %v", got))
		}
		res.Shape("proxy", fork, nFwd, hops)
	case "multi":
		// several different contracts write through 0x66 within ONE EVM instance (also across two transactions):
		// each write must be recorded under the contract whose CALL reached the precompile
		r := h.NewRNG(c.Seed)
		depth := 2 + r.Intn(3)
		fork := h.Pick(r, c14Forks)
		codes := make([][]byte, depth)
		for i := 0; i < depth; i++ {
			a := h.NewAsm()
			a.Op(h.CALLDATASIZE).PushU(0).PushU(0).Op(h.CALLDATACOPY)
			writeFirst := r.Bool()
			write := func() {
				a.PushU(0).PushU(0).Op(h.CALLDATASIZE).PushU(0).PushU(0).PushAddr(addrCtxWrite).PushU(100000).Op(h.CALL, h.POP)
			}
			if writeFirst {
				write()
			}
			if i+1 < depth {
				a.PushU(0).PushU(0).Op(h.CALLDATASIZE).PushU(0).PushU(0).PushAddr(h.ContractAddr(i+1)).PushU(3_000_000).Op(h.CALL, h.POP)
			}
			if !writeFirst || r.Bool() {
				write()
			}
			a.Op(h.STOP)
			codes[i] = a.Bytes()
		}
		fs := h.NewForkSession(h.BaseWorld(codes), h.EnvSpec{Fork: fork}, h.ForkOpts{Debug: true, RecSteps: true, LightMem: true})
		payload := abibytes.Encode([]byte("who"), r.Bytes(1+r.Intn(40)))
		desc := fmt.Sprintf("fork=%s %d contracts each writing through 0x66 in one EVM, two transactions", fork, depth)
		for txn := 0; txn < 2; txn++ {
			start := len(fs.L.Events)
			ir := fs.Invoke(h.TxSpec{Entry: h.ECall, From: h.Sender, To: h.ContractAddr(txn % depth), Input: payload, Gas: 9_000_000})
			n++
			if ir.Panic != "" {
				res.Fail(Key("panic", "0x66", "multi"), "panic: "+firstLine(ir.Panic), desc, clip(ir.PanicStk, 1500))
				break
			}
			// expected writers: the From of every Enter to 0x66, in order
			var want, got []common.Address
			for i := start; i < len(fs.L.Events); i++ {
				e := &fs.L.Events[i]
				if e.K == h.KEnter && e.To == addrCtxWrite {
					want = append(want, e.From)
				}
				if e.K == h.KCtxSet {
					got = append(got, e.Addr)
				}
			}
			res.Count("calls", int64(len(want)))
			res.Count("valid_payloads", int64(len(want)))
			res.Count("multi_writer_writes", int64(len(want)))
			if fmt.Sprint(want) != fmt.Sprint(got) {
				res.Fail(Key("wrong-attribution", "multi-writer"), "context writes were recorded under other addresses than the contracts whose calls reached the precompile", desc, fmt.Sprintf("callers:  %v", want), fmt.Sprintf("recorded: %v", got))
			}
			res.Shape("multi", depth, fork, len(want))
		}
	}
	res.Evals = n
	_ = uint256.NewInt
	return
}
