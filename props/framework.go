// Package props holds one workload generator + oracle per property.
package props

import (
	"fmt"
	"hash/fnv"
	"sort"
	"strings"
)

// Case is a compact, JSON-serialisable case descriptor. The actual programs,
// worlds and fault plans are regenerated deterministically from it.
type Case struct {
	Kind string  `json:"kind"`
	Seed uint64  `json:"seed"`
	P    []int64 `json:"p,omitempty"`
	S    string  `json:"s,omitempty"`
}

// Finding is one oracle rule that fired.
type Finding struct {
	Key    string   `json:"key"` // <rule>:<locus>:<class> — computed by code
	Msg    string   `json:"msg"`
	Detail []string `json:"detail,omitempty"`
}

// CaseResult is what a worker reports for one case.
type CaseResult struct {
	Findings []Finding           `json:"findings,omitempty"`
	Shapes   []uint64            `json:"shapes,omitempty"` // hashes of distinct non-trivial executions observed
	Obs      map[string]int64    `json:"obs,omitempty"`    // counters, summed over cases
	Sets     map[string][]string `json:"sets,omitempty"`   // set-valued observations, unioned
	Sample   interface{}         `json:"sample,omitempty"` // written-out case (kept for a few cases)
	Evals    int64               `json:"evals,omitempty"`  // executions run by this case (default 1)

	shapeSet map[uint64]struct{}
}

func (r *CaseResult) Count(name string, n int64) {
	if r.Obs == nil {
		r.Obs = map[string]int64{}
	}
	r.Obs[name] += n
}

func (r *CaseResult) Max(name string, n int64) {
	if r.Obs == nil {
		r.Obs = map[string]int64{}
	}
	k := "max_" + name
	if n > r.Obs[k] {
		r.Obs[k] = n
	}
}

func (r *CaseResult) Set(name, val string) {
	if r.Sets == nil {
		r.Sets = map[string][]string{}
	}
	for _, v := range r.Sets[name] {
		if v == val {
			return
		}
	}
	r.Sets[name] = append(r.Sets[name], val)
}

func (r *CaseResult) Shape(parts ...interface{}) {
	h := fnv.New64a()
	fmt.Fprint(h, parts...)
	v := h.Sum64()
	if r.shapeSet == nil {
		r.shapeSet = map[uint64]struct{}{}
	}
	if _, dup := r.shapeSet[v]; dup {
		return
	}
	r.shapeSet[v] = struct{}{}
	r.Shapes = append(r.Shapes, v)
}

func (r *CaseResult) Fail(key, msg string, detail ...string) {
	for _, f := range r.Findings {
		if f.Key == key {
			return // one finding per key per case
		}
	}
	if len(detail) > 60 {
		detail = detail[:60]
	}
	r.Findings = append(r.Findings, Finding{Key: key, Msg: msg, Detail: detail})
}

// Prop is one property's check.
type Prop struct {
	ID          string
	Level       string // MANIFEST level category
	Rule        string
	Assumptions []string
	Exhaustive  func(tier string) bool
	// Cases returns the deterministic case list for (seed, tier).
	Cases func(seed uint64, tier string) []Case
	// Run executes one case in a worker process.
	Run func(c Case, tier string) CaseResult
	// Floors: minimum values of observed counters; below => inconclusive.
	Floors func(tier string) map[string]int64
	// Hostile: run workers under an address-space cap.
	Hostile bool
	// Race: needs the -race build.
	Race bool
	// BatchSize overrides the default batch size.
	BatchSize func(tier string, n int) int
	// Finish may add findings computed across all cases (parent side).
	Finish func(agg *Agg, tier string) []Finding
	// Serial: run batches one at a time (allocation accounting etc.)
	Serial bool
}

// Agg is the parent-side aggregate.
type Agg struct {
	Obs     map[string]int64
	Sets    map[string]map[string]bool
	Shapes  map[uint64]bool
	Evals   int64
	Samples []interface{}
}

var registry = map[string]*Prop{}

func Register(p *Prop) { registry[p.ID] = p }

func Get(id string) *Prop { return registry[id] }

func IDs() []string {
	var ids []string
	for id := range registry {
		ids = append(ids, id)
	}
	sort.Strings(ids)
	return ids
}

// sanitizeKeyPart keeps finding keys one token.
func kp(s string) string {
	s = strings.ReplaceAll(s, " ", "_")
	s = strings.ReplaceAll(s, ":", "_")
	if len(s) > 60 {
		s = s[:60]
	}
	return s
}

// Key builds a finding key.
func Key(parts ...string) string {
	for i := range parts {
		parts[i] = kp(parts[i])
	}
	return strings.Join(parts, ":")
}

func quick(tier string) bool { return tier != "thorough" }
