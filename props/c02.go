package props

import (
	"fmt"
	"github.com/ethereum/go-ethereum/crypto"
	"math/big"
	"sort"

	h "verif/harness"

	"github.com/ethereum/go-ethereum/common"
	"github.com/holiman/uint256"
)

// C02 — gas per step, per frame, refund, and the out-of-gas point.

func init() {
	Register(&Prop{
		ID:    "C02",
		Level: "exploration",
		Rule: "each generated program (C01 generator) runs on both VMs with ample gas and the two debug-tracer streams are compared callback by callback on (pc, op, gas-before, cost, depth, error class, frame gas in, frame gasUsed); " +
			"the fork's own stream is checked for gas[i+1]=gas[i]-cost[i](+returned by nested frame) and gasUsed<=gas given; then the program is re-run on both VMs at limits c-1, c, c+1 for the cumulative consumption c at (thinned) steps of the outer frame plus random limits, comparing streams, outcome, refund and state root; " +
			"plus SSTORE (original,current,new) in {0,a,b}^3 on every fork and call-gas/stipend corner cases; distinct_nontrivial = distinct (shape, gas-limit class) pairs where at least 3 instructions ran",
		Assumptions: []string{
			"go-ethereum v1.12.0 is the trusted reference; in-domain executions only (see C01)",
			"gas limits are sampled around every intermediate gas value of the outer frame (thinned to a cap), not all 2^64 limits",
		},
		Cases: func(seed uint64, tier string) []Case {
			n := 240
			if !quick(tier) {
				n = 2000
			}
			var cs []Case
			for i := 0; i < n; i++ {
				cs = append(cs, Case{Kind: "sweep", Seed: h.Mix(seed, 0xC02, uint64(i))})
			}
			nt := 80
			if !quick(tier) {
				nt = 500
			}
			for i := 0; i < nt; i++ {
				cs = append(cs, Case{Kind: "tree", Seed: h.Mix(seed, 0xC02A, uint64(i))})
			}
			for f := h.Frontier; f <= h.Shanghai; f++ {
				cs = append(cs, Case{Kind: "sstore", P: []int64{int64(f)}})
				cs = append(cs, Case{Kind: "callgas", P: []int64{int64(f)}, Seed: h.Mix(seed, 0xC02C, uint64(f))})
				cs = append(cs, Case{Kind: "selfdestruct", P: []int64{int64(f)}, Seed: h.Mix(seed, 0xC02D, uint64(f))})
				cs = append(cs, Case{Kind: "createwarm", P: []int64{int64(f)}})
				cs = append(cs, Case{Kind: "createedge", P: []int64{int64(f)}, Seed: h.Mix(seed, 0xC02E, uint64(f))})
				cs = append(cs, Case{Kind: "pcprice", P: []int64{int64(f)}})
			}
			return cs
		},
		Run: runC02,
		Floors: func(tier string) map[string]int64 {
			return map[string]int64{"limit_runs": 5000, "steps_compared": 100000, "oog_points": 500}
		},
	})
}

// dualStreams runs both VMs with the debug recorder and compares streams and outcomes.
func dualStreams(res *CaseResult, dc DualCase, full bool, tag string) (fs *h.ForkSession, rs *h.RefSession, ok bool) {
	rs = h.NewRefSession(dc.World, dc.Env, h.RefOpts{Debug: true, RecSteps: true, LightMem: !full})
	rres := rs.Invoke(dc.Tx)
	if out, why := executedOutOfDomain(rs.L, dc.Tx, dc.Env.ExtraEips); out {
		res.Count("out_of_domain", 1)
		res.Set("out_of_domain_reasons", why)
		return nil, nil, false
	}
	fs = h.NewForkSession(dc.World, dc.Env, h.ForkOpts{Debug: true, RecSteps: true, LightMem: !full})
	fres := fs.Invoke(dc.Tx)
	if out, why := executedOutOfDomain(fs.L, dc.Tx, dc.Env.ExtraEips); out {
		res.Count("out_of_domain", 1)
		res.Set("out_of_domain_reasons", "fork:"+why)
		return nil, nil, false
	}
	if d, seq := compareStreams(fs.L, rs.L, full); d != "" {
		det := append([]string{dc.Desc, tag, d, "fork stream around the divergence:"}, excerpt(fs.L, seq, 6)...)
		locus := "stream"
		if seq < len(fs.L.Events) {
			e := fs.L.Events[seq]
			if e.K == h.KStep || e.K == h.KFault {
				locus = fmt.Sprintf("op%02x", e.Op)
			} else {
				locus = e.K.String()
			}
		}
		res.Fail(Key("stream", locus, dc.Tx.Entry.String()), "debug-tracer stream differs from go-ethereum v1.12.0: "+d, det...)
	}
	addrs := h.TouchedAddrs(dc.World, rs.L)
	fout := h.CollectOutcome(fs.DB, fres, fs.Rules.IsEIP158, addrs)
	rout := h.CollectOutcome(rs.DB, rres, rs.Rules.IsEIP158, addrs)
	if d := h.DiffOutcome(fout, rout); len(d) > 0 {
		det := append([]string{dc.Desc, tag}, d...)
		res.Fail(Key("outcome", dc.Tx.Entry.String()), "outcome (gas/refund/state) differs from go-ethereum v1.12.0", det...)
	}
	n := 0
	for i := range fs.L.Events {
		if fs.L.Events[i].K == h.KStep {
			n++
		}
	}
	res.Count("steps_compared", int64(n))
	return fs, rs, true
}

func runC02(c Case, tier string) (res CaseResult) {
	switch c.Kind {
	case "sweep":
		dc := genDual(c.Seed, h.Shanghai, func(o *h.GenOpts) { o.CallBias = 20 })
		dc.Tx.Gas = 400000
		fs, _, ok := dualStreams(&res, dc, false, "ample gas")
		if !ok {
			return
		}
		for _, v := range append(gasArithmetic(fs.L), gasBounds(fs.L)...) {
			res.Fail(Key("arith", dc.Tx.Entry.String()), "fork gas stream violates gas[i+1]=gas[i]-cost[i](+returned)", dc.Desc, v)
		}
		opsCovered(&res, fs.L)
		base := shapeOf(fs.L)
		// cumulative consumption at outer-frame steps
		var cums []uint64
		for i := range fs.L.Events {
			e := &fs.L.Events[i]
			if e.K == h.KStep && e.Depth == 1 {
				cums = append(cums, dc.Tx.Gas-e.Gas, dc.Tx.Gas-e.Gas+e.Cost)
			}
		}
		limitSet := map[uint64]bool{}
		cap := 40
		if !quick(tier) {
			cap = 150
		}
		stride := 1
		if len(cums) > cap {
			stride = (len(cums) + cap - 1) / cap
		}
		for i := 0; i < len(cums); i += stride {
			cv := cums[i]
			for _, l := range []uint64{cv - 1, cv, cv + 1} {
				if l < 1<<40 {
					limitSet[l] = true
				}
			}
		}
		r := h.NewRNG(c.Seed ^ 0x51)
		for i := 0; i < 8; i++ {
			limitSet[uint64(r.Intn(60000))] = true
		}
		limits := make([]uint64, 0, len(limitSet))
		for l := range limitSet {
			limits = append(limits, l)
		}
		sort.Slice(limits, func(i, j int) bool { return limits[i] < limits[j] })
		evals := int64(1)
		for _, l := range limits {
			d2 := dc
			d2.Tx.Gas = l
			f2, _, ok := dualStreams(&res, d2, false, fmt.Sprintf("gas limit %d", l))
			evals++
			if !ok {
				continue
			}
			res.Count("limit_runs", 1)
			ret := f2.L.Events[len(f2.L.Events)-1]
			if ret.Err == "oog" {
				res.Count("oog_points", 1)
			}
			cls := "ok"
			if ret.Err != "" {
				cls = ret.Err
			}
			res.Shape(base, cls, len(f2.L.Events))
		}
		res.Evals = evals
		res.Set("forks", dc.Env.Fork.String())
		if c.Seed%61 == 0 {
			res.Sample = map[string]interface{}{"case": c, "desc": dc.Desc, "limits_tried": len(limits), "first_limits": limits[:min(8, len(limits))]}
		}
	case "tree":
		dc := genDualTree(c.Seed)
		if fs, _, ok := dualStreams(&res, dc, false, "call tree"); ok {
			for _, v := range append(gasArithmetic(fs.L), gasBounds(fs.L)...) {
				res.Fail(Key("arith", "tree"), "fork gas stream violates gas[i+1]=gas[i]-cost[i](+returned)", dc.Desc, v)
			}
			res.Shape("tree", shapeOf(fs.L))
			res.Count("tree_cases", 1)
			// a few tighter limits as well
			r := h.NewRNG(c.Seed ^ 0x7e)
			for k := 0; k < 4; k++ {
				d2 := dc
				d2.Tx.Gas = uint64(30000 + r.Intn(400000))
				dualStreams(&res, d2, false, fmt.Sprintf("call tree, gas limit %d", d2.Tx.Gas))
				res.Count("limit_runs", 1)
			}
			res.Evals = 5
		}
	case "sstore":
		f := h.Fork(c.P[0])
		vals := []uint64{0, 0xa, 0xb}
		n := int64(0)
		for _, o := range vals {
			for _, cu := range vals {
				for _, nw := range vals {
					for _, eips := range [][]int{nil, {2200}, {1884}} {
						a := h.NewAsm()
						a.PushU(cu).PushU(1).Op(h.SSTORE).PushU(nw).PushU(1).Op(h.SSTORE).PushU(1).Op(h.SLOAD, h.POP, h.STOP)
						w := h.BaseWorld([][]byte{a.Bytes()})
						if o != 0 {
							w.Get(h.ContractAddr(0)).Storage[h.HashU(1)] = common.BigToHash(new(big.Int).SetUint64(o))
						}
						// limits at which exactly 2299 / 2300 / 2301 gas is left when each SSTORE is reached (the EIP-2200 sentry)
						gases := []uint64{100000, 2300, 2301, 5000, 20000}
						{
							probe := h.NewForkSession(w, h.EnvSpec{Fork: f, ExtraEips: eips}, h.ForkOpts{Debug: true, RecSteps: true, LightMem: true})
							probe.Invoke(h.TxSpec{Entry: h.ECall, From: h.Sender, To: h.ContractAddr(0), Gas: 100000})
							for i := range probe.L.Events {
								if e := &probe.L.Events[i]; e.K == h.KStep && e.Op == h.SSTORE {
									used := 100000 - e.Gas
									gases = append(gases, used+2299, used+2300, used+2301)
								}
							}
						}
						for _, gas := range gases {
							dc := DualCase{World: w, Env: h.EnvSpec{Fork: f, ExtraEips: eips}, Tx: h.TxSpec{Entry: h.ECall, From: h.Sender, To: h.ContractAddr(0), Gas: gas},
								Desc: fmt.Sprintf("sstore fork=%s eips=%v orig=%d cur=%d new=%d gas=%d", f, eips, o, cu, nw, gas)}
							if fs, _, ok := dualStreams(&res, dc, false, "sstore"); ok {
								res.Shape("sstore", f, o, cu, nw, gas, len(eips))
								for _, v := range append(gasArithmetic(fs.L), gasBounds(fs.L)...) {
									res.Fail(Key("arith", "sstore"), "fork gas stream inconsistent", dc.Desc, v)
								}
							}
							n++
						}
					}
				}
			}
		}
		res.Evals = n
		res.Count("sstore_cases", n)
	case "selfdestruct":
		// orders of self-destructs within one transaction: the same contract destroyed twice, a beneficiary that was
		// itself destroyed earlier, the contract as its own beneficiary, new / empty / funded beneficiaries, with and
		// without balance (refund counter, new-account and cold-access surcharges differ per fork)
		f := h.Fork(c.P[0])
		n := int64(0)
		for _, dc := range selfdestructDuals(f) {
			if fs, _, ok := dualStreams(&res, dc, false, "selfdestruct"); ok {
				res.Shape("selfdestruct", f, shapeOf(fs.L))
			}
			n++
		}
		res.Evals = n
		res.Count("selfdestruct_cases", n)
	case "createwarm":
		// a creation that fails (reverting / invalid / colliding / oversize init code, top level of the program or nested)
		// followed by accesses to the address it would have had: warm or cold, and priced how, is the reference's call
		f := h.Fork(c.P[0])
		n := int64(0)
		inits := [][]byte{
			h.NewAsm().PushU(0).PushU(0).Op(h.REVERT).Bytes(),
			{h.INVALID},
			h.NewAsm().PushU(1).PushU(0).Op(h.SSTORE, h.STOP).Bytes(),
			h.NewAsm().PushU(24577).PushU(0).Op(h.RETURN).Bytes(),
			h.NewAsm().Push(new(uint256.Int).Lsh(uint256.NewInt(0xEF), 248)).PushU(0).Op(h.MSTORE).PushU(1).PushU(0).Op(h.RETURN).Bytes(),
		}
		for ii, init := range inits {
			for _, c2 := range []bool{false, true} {
				if c2 && f < h.Constantinople {
					continue
				}
				for _, probe := range []byte{h.BALANCE, h.EXTCODESIZE, h.EXTCODEHASH, h.CALL, h.STATICCALL, h.SELFDESTRUCT} {
					var target common.Address
					if c2 {
						target = crypto.CreateAddress2(h.ContractAddr(0), common.Hash{31: 9}, crypto.Keccak256(init))
					} else {
						target = crypto.CreateAddress(h.ContractAddr(0), 1)
					}
					for _, collide := range []bool{false, true} {
						a := h.NewAsm().MstoreBytes(0, init)
						if c2 {
							a.PushU(9).PushU(uint64(len(init))).PushU(0).PushU(0).Op(h.CREATE2)
						} else {
							a.PushU(uint64(len(init))).PushU(0).PushU(0).Op(h.CREATE)
						}
						a.PushU(1).Op(h.SSTORE)
						switch probe {
						case h.CALL:
							a.PushU(0).PushU(0).PushU(0).PushU(0).PushU(0).PushAddr(target).PushU(5000).Op(h.CALL, h.POP)
						case h.STATICCALL:
							a.PushU(0).PushU(0).PushU(0).PushU(0).PushAddr(target).PushU(5000).Op(h.STATICCALL, h.POP)
						case h.SELFDESTRUCT:
							a.PushAddr(target).Op(h.SELFDESTRUCT)
						default:
							a.PushAddr(target).Op(probe, h.POP)
						}
						a.Op(h.GAS).PushU(2).Op(h.SSTORE, h.STOP)
						w := h.BaseWorld([][]byte{a.Bytes()})
						if collide {
							w.Set(h.Acct{Addr: target, Balance: big.NewInt(3), Nonce: 1})
						}
						dc := DualCase{World: w, Env: h.EnvSpec{Fork: f}, Tx: h.TxSpec{Entry: h.ECall, From: h.Sender, To: h.ContractAddr(0), Gas: 3_000_000},
							Desc: fmt.Sprintf("createwarm fork=%s init#%d create2=%v occupied=%v probe=%#x", f, ii, c2, collide, probe)}
						if fs, _, ok := dualStreams(&res, dc, false, "createwarm"); ok {
							res.Shape("createwarm", f, ii, c2, collide, probe, shapeOf(fs.L))
						}
						n++
					}
				}
			}
		}
		res.Evals = n
		res.Count("createwarm_cases", n)
	case "createedge":
		f := h.Fork(c.P[0])
		n := int64(0)
		for _, dc := range createEdgeDuals(f, h.NewRNG(c.Seed)) {
			if fs, _, ok := dualStreams(&res, dc, false, "createedge"); ok {
				res.Shape("createedge", f, shapeOf(fs.L))
			}
			n++
		}
		res.Evals = n
		res.Count("createedge_cases", n)
	case "pcprice":
		// every standard precompile with zero-filled inputs of the lengths at which its price formula changes, ample and
		// tight gas: the fee charged (and so the gas handed back) is the reference's on every fork
		f := h.Fork(c.P[0])
		n := int64(0)
		for pc := byte(1); pc <= 10; pc++ {
			for _, l := range []uint64{0, 1, 31, 32, 33, 64, 96, 97, 128, 191, 192, 193, 213, 384, 576, 1000} {
				for _, gas := range []uint64{1_000_000, 150_000, 3000, 60} {
					a := h.NewAsm()
					if pc == 9 && l == 213 {
						a.PushU(1).PushU(3).Op(h.MSTORE8) // 1 round
					}
					if pc == 5 && l >= 96 {
						a.PushU(1).PushU(0).Op(h.MSTORE).PushU(1).PushU(32).Op(h.MSTORE).PushU(1).PushU(64).Op(h.MSTORE) // 1-byte base, exponent, modulus
					}
					a.PushU(64).PushU(0x800).PushU(l).PushU(0).PushU(0).PushAddr(common.BytesToAddress([]byte{pc})).PushU(gas).Op(h.CALL).PushU(1).Op(h.SSTORE)
					a.Op(h.GAS).PushU(2).Op(h.SSTORE, h.RETURNDATASIZE).PushU(3).Op(h.SSTORE, h.STOP)
					dc := DualCase{World: h.BaseWorld([][]byte{a.Bytes()}), Env: h.EnvSpec{Fork: f}, Tx: h.TxSpec{Entry: h.ECall, From: h.Sender, To: h.ContractAddr(0), Gas: 2_000_000},
						Desc: fmt.Sprintf("pcprice fork=%s precompile=%d inputlen=%d callgas=%d", f, pc, l, gas)}
					if fs, _, ok := dualStreams(&res, dc, false, "pcprice"); ok {
						res.Shape("pcprice", f, pc, l, gas, shapeOf(fs.L))
					}
					n++
				}
			}
		}
		res.Evals = n
		res.Count("pcprice_cases", n)
	case "callgas":
		f := h.Fork(c.P[0])
		r := h.NewRNG(c.Seed)
		callee := h.NewAsm().PushU(1).PushU(0).Op(h.SSTORE).PushU(0).PushU(0).Op(h.RETURN).Bytes()
		targets := []common.Address{h.ContractAddr(1), h.EOARich, h.Nobody, common.BytesToAddress([]byte{2}), common.BytesToAddress([]byte{4})}
		n := int64(0)
		for _, kind := range []byte{h.CALL, h.CALLCODE, h.DELEGATECALL, h.STATICCALL} {
			for _, tgt := range targets {
				for _, val := range []uint64{0, 1, 255} { // 255: stands for the value 2^255 (more than any balance; top bit set)
					if val != 0 && (kind == h.DELEGATECALL || kind == h.STATICCALL) {
						continue
					}
					for _, cg := range []*uint256.Int{uint256.NewInt(0), uint256.NewInt(2300), uint256.NewInt(2301), uint256.NewInt(30000), uint256.NewInt(1 << 40), new(uint256.Int).Not(uint256.NewInt(0)),
						new(uint256.Int).Lsh(uint256.NewInt(1), 64), new(uint256.Int).AddUint64(new(uint256.Int).Lsh(uint256.NewInt(1), 64), 5), new(uint256.Int).Lsh(uint256.NewInt(1), 255), new(uint256.Int).AddUint64(new(uint256.Int).Lsh(uint256.NewInt(1), 128), 30000), new(uint256.Int).Lsh(uint256.NewInt(0xdeadbeef), 96),
						uint256.NewInt(^uint64(0)), uint256.NewInt(^uint64(0) - 700), uint256.NewInt(1 << 63)} {
						a := h.NewAsm()
						a.PushU(32).PushU(0).PushU(32).PushU(0)
						if kind == h.CALL || kind == h.CALLCODE {
							if val == 255 {
								a.Push(new(uint256.Int).Lsh(uint256.NewInt(1), 255))
							} else {
								a.PushU(val)
							}
						}
						a.PushAddr(tgt).Push(cg).Op(kind).PushU(3).Op(h.SSTORE, h.STOP)
						w := h.BaseWorld([][]byte{a.Bytes(), callee})
						for _, gas := range []uint64{100000, uint64(2000 + r.Intn(40000)), uint64(700 + r.Intn(2000))} {
							dc := DualCase{World: w, Env: h.EnvSpec{Fork: f}, Tx: h.TxSpec{Entry: h.ECall, From: h.Sender, To: h.ContractAddr(0), Gas: gas},
								Desc: fmt.Sprintf("callgas fork=%s kind=%#x target=%s value=%d callgas=%s txgas=%d", f, kind, tgt.Hex(), val, cg.Hex(), gas)}
							if fs, _, ok := dualStreams(&res, dc, false, "callgas"); ok {
								res.Shape("callgas", f, kind, tgt, val, cg.Hex(), shapeOf(fs.L))
								for _, v := range append(gasArithmetic(fs.L), gasBounds(fs.L)...) {
									res.Fail(Key("arith", "callgas"), "fork gas stream inconsistent", dc.Desc, v)
								}
							}
							n++
						}
					}
				}
			}
		}
		// very large gas allowances (beyond what an Aspect runtime accepts), join points off and on with nothing bound
		none := &h.AspectPlan{Pre: map[common.Address][]h.Binding{}, Post: map[common.Address][]h.Binding{}, FailAt: map[int]error{}}
		for _, kind := range []byte{h.CALL, h.DELEGATECALL, h.STATICCALL} {
			a := h.NewAsm().PushU(32).PushU(0).PushU(32).PushU(0)
			if kind == h.CALL {
				a.PushU(0)
			}
			a.PushAddr(h.ContractAddr(1)).Op(h.GAS, kind).PushU(3).Op(h.SSTORE, h.GAS).PushU(4).Op(h.SSTORE, h.STOP)
			w := h.BaseWorld([][]byte{a.Bytes(), callee})
			for _, gas := range []uint64{1 << 53, 9223372036854775, 9223372036854775 + 1000000, 1 << 62, 1 << 63, ^uint64(0)} {
				for _, jp := range []bool{false, true} {
					dc := DualCase{World: w, Env: h.EnvSpec{Fork: f}, Tx: h.TxSpec{Entry: h.ECall, From: h.Sender, To: h.ContractAddr(0), Gas: gas},
						Desc: fmt.Sprintf("hugegas fork=%s kind=%#x txgas=%d joinpoints=%v (nothing bound)", f, kind, gas, jp)}
					rs := h.NewRefSession(dc.World, dc.Env, h.RefOpts{Debug: true, RecSteps: true, LightMem: true})
					rres := rs.Invoke(dc.Tx)
					fs := h.NewForkSession(dc.World, dc.Env, h.ForkOpts{Debug: true, RecSteps: true, LightMem: true, JoinPoints: jp, Plan: none})
					fres := fs.Invoke(dc.Tx)
					if fres.Panic != "" {
						res.Fail(Key("panic", "hugegas"), "panic: "+firstLine(fres.Panic), dc.Desc)
						continue
					}
					if d, _ := compareStreams(fs.L, rs.L, false); d != "" {
						res.Fail(Key("stream", "hugegas", fmt.Sprint(jp)), "debug-tracer stream differs from go-ethereum v1.12.0: "+d, dc.Desc)
					}
					addrs := h.TouchedAddrs(dc.World, rs.L)
					if d := h.DiffOutcome(h.CollectOutcome(fs.DB, fres, fs.Rules.IsEIP158, addrs), h.CollectOutcome(rs.DB, rres, rs.Rules.IsEIP158, addrs)); len(d) > 0 {
						res.Fail(Key("outcome", "hugegas", fmt.Sprint(jp)), "outcome (gas/refund/state) differs from go-ethereum v1.12.0", append([]string{dc.Desc}, d...)...)
					}
					res.Count("hugegas_runs", 1)
					n++
				}
			}
		}
		res.Evals = n
		res.Count("callgas_cases", n)
	}
	return
}

// selfdestructDuals: programs in which contracts destroy themselves in different orders and the transaction then
// looks at what is left (balances of the destroyed contracts and of the beneficiaries, calls into destroyed contracts).
func selfdestructDuals(f h.Fork) []DualCase {
	var out []DualCase
	bens := []common.Address{h.EOARich, h.Nobody, h.EmptyAcct, h.ContractAddr(1), h.ContractAddr(2), h.ContractAddr(3), common.BytesToAddress([]byte{4}), {}}
	for bi, ben1 := range bens {
		for _, ben2 := range []common.Address{h.ContractAddr(1), h.ContractAddr(2), h.Nobody} {
			for _, bal := range []int64{0, 5} {
				d1 := h.NewAsm().PushAddr(ben1).Op(h.SELFDESTRUCT).Bytes()
				d2 := h.NewAsm().PushAddr(ben2).Op(h.SELFDESTRUCT).Bytes()
				d3 := h.NewAsm().Op(h.ADDRESS, h.SELFDESTRUCT).Bytes()
				a := h.NewAsm()
				order := [][]int{{1, 1}, {2, 1}, {1, 2, 1}, {3, 1, 3}, {2, 2, 1, 1}, {3, 3, 2}}[(bi+int(bal))%6]
				for _, t := range order {
					a.PushU(0).PushU(0).PushU(0).PushU(0).PushU(uint64(bal%2)).PushAddr(h.ContractAddr(t)).PushU(100000).Op(h.CALL, h.POP)
				}
				// what the transaction can still see of the destroyed contracts and their beneficiaries
				for i, who := range []common.Address{h.ContractAddr(1), h.ContractAddr(2), h.ContractAddr(3), ben1} {
					a.PushAddr(who).Op(h.BALANCE).PushU(uint64(40 + i)).Op(h.SSTORE)
				}
				a.Op(h.STOP)
				w := h.BaseWorld([][]byte{a.Bytes(), d1, d2, d3})
				for i := 1; i <= 3; i++ {
					w.Get(h.ContractAddr(i)).Balance = big.NewInt(bal)
				}
				for _, gas := range []uint64{1_000_000, 60000} {
					out = append(out, DualCase{World: w, Env: h.EnvSpec{Fork: f}, Tx: h.TxSpec{Entry: h.ECall, From: h.Sender, To: h.ContractAddr(0), Gas: gas},
						Desc: fmt.Sprintf("selfdestruct order=%v fork=%s beneficiary1=%s beneficiary2=%s balance=%d txgas=%d", order, f, ben1.Hex(), ben2.Hex(), bal, gas)})
				}
			}
		}
	}
	return out
}

// createEdgeDuals: every init-code template created by CREATE, CREATE2 and as the transaction itself, with a gas budget
// that is ample, that covers the init code but not the code deposit, and that is tiny; the creator then looks at the result.
func createEdgeDuals(f h.Fork, r *h.RNG) []DualCase {
	var out []DualCase
	for t := 0; t < h.NumInitTemplates; t++ {
		init := h.InitTemplate(r, t)
		for _, gas := range []uint64{3_000_000, 200_000, 60_000, 12_000_000} {
			if t == 2 && gas > 200_000 {
				continue // (the looping template: long runs add nothing)
			}
			if gas == 12_000_000 && t != 5 && t != 9 && t != 10 && t != 11 {
				continue // (only the templates returning kilobytes of code need a budget that covers their deposit)
			}
			for mode := 0; mode < 3; mode++ {
				if mode == 2 && f < h.Constantinople {
					continue
				}
				var w *h.World
				var tx h.TxSpec
				if mode == 0 {
					w = h.BaseWorld(nil)
					tx = h.TxSpec{Entry: h.ECreate, From: h.Sender, Input: init, Gas: gas, Value: big.NewInt(int64(t % 2))}
				} else {
					a := h.NewAsm().MstoreBytes(0, init)
					if mode == 1 {
						a.PushU(uint64(len(init))).PushU(0).PushU(uint64(t % 2)).Op(h.CREATE)
					} else {
						a.PushU(3).PushU(uint64(len(init))).PushU(0).PushU(uint64(t % 2)).Op(h.CREATE2)
					}
					a.Op(h.DUP1).PushU(1).Op(h.SSTORE)
					if f >= h.Byzantium {
						a.Op(h.RETURNDATASIZE).PushU(6).Op(h.SSTORE) // (what the creator's return-data buffer holds after the create)
					}
					a.Op(h.DUP1, h.EXTCODESIZE).PushU(2).Op(h.SSTORE)
					a.Op(h.DUP1, h.BALANCE).PushU(3).Op(h.SSTORE)
					a.PushU(0).PushU(0).PushU(0).PushU(0).PushU(0).Op(h.DUP1 + 5).PushU(20000).Op(h.CALL).PushU(4).Op(h.SSTORE)
					a.Op(h.POP, h.GAS).PushU(5).Op(h.SSTORE, h.STOP)
					w = h.BaseWorld([][]byte{a.Bytes()})
					tx = h.TxSpec{Entry: h.ECall, From: h.Sender, To: h.ContractAddr(0), Gas: gas}
				}
				out = append(out, DualCase{World: w, Env: h.EnvSpec{Fork: f}, Tx: tx, Desc: fmt.Sprintf("create edge: init template %d mode=%d (0 tx, 1 CREATE, 2 CREATE2) gas=%d fork=%s", t, mode, gas, f)})
			}
		}
	}
	return out
}

func min(a, b int) int {
	if a < b {
		return a
	}
	return b
}
