package props

import (
	"errors"
	"fmt"
	"math/big"

	h "verif/harness"

	avm "github.com/artela-network/artela-evm/vm"
	"github.com/artela-network/aspect-core/djpm/run"
	"github.com/ethereum/go-ethereum/common"
	"github.com/holiman/uint256"
)

// A Scenario is an explicit call tree: every node is a piece of code living in
// one of a few contracts (selected by the first calldata byte) or an init-code
// blob run by CREATE/CREATE2. Each node performs recognisable effects before
// and after calling its children and then terminates in a chosen way.

const (
	tStop = iota
	tReturn
	tRevert
	tInvalid
	tOOG
	tSelfdestruct
	tReturnCode // init code only
	numTerms
)

var termNames = []string{"stop", "return", "revert", "invalid", "oog", "selfdestruct", "returncode"}

type action struct {
	Kind int // 0 sstore 1 log 2 sload 3 extra
	Slot uint64
	Val  uint64
}

type node struct {
	ID       int
	Contract int  // contract index holding the code (for creates: the parent contract, code is a blob)
	Local    int  // selector within the contract (0 = default)
	Kind     byte // how the parent reaches it: CALL, CALLCODE, DELEGATECALL, STATICCALL, CREATE, CREATE2 (root: CALL)
	Value    uint64
	HugeVal  bool // value larger than any balance
	GasReq   uint64
	CDLen    int  // calldata filler length (selector byte included when Local != 0 or CDLen > 0)
	EmptyCD  bool // call with empty calldata (only when Local == 0)
	Pre      []action
	Post     []action
	Children []*node
	Term     int
	Depth    int
	Static   bool // runs in a static context
	Salt     uint64
	Extra    func(a *h.Asm, n *node, phase int) // optional extra code emitted (phase 0 pre, 1 post)
}

type scenOpts struct {
	MinFork, MaxFork h.Fork
	MaxDepth         int
	MaxWidth         int
	MaxNodes         int
	Kinds            []byte // allowed child kinds (weights by repetition)
	FailPct          int    // percent of nodes with a failing terminator
	NoSelfdestruct   bool
	NoOOG            bool     // no out-of-gas terminators (gas-insensitive scenarios)
	GasReqs          []uint64 // gas requested per depth (default {0,1500000,300000,60000,12000,2500})
	RootGas          uint64
	CDLens           []int
	ValuePct         int
	Extra            func(a *h.Asm, n *node, phase int)
	Contracts        int
}

type scenario struct {
	Fork      h.Fork
	NContract int
	Root      *node
	Nodes     []*node
	World     *h.World
	Tx        h.TxSpec
	Codes     [][]byte
}

var defaultKinds = []byte{h.CALL, h.CALL, h.CALL, h.CALL, h.CALL, h.DELEGATECALL, h.CALLCODE, h.STATICCALL, h.CREATE, h.CREATE2}

func genScenario(r *h.RNG, o scenOpts) *scenario {
	if o.MaxDepth == 0 {
		o.MaxDepth = 4
	}
	if o.MaxWidth == 0 {
		o.MaxWidth = 3
	}
	if o.MaxNodes == 0 {
		o.MaxNodes = 9
	}
	if o.Kinds == nil {
		o.Kinds = defaultKinds
	}
	if o.CDLens == nil {
		o.CDLens = []int{0, 1, 4, 31, 32, 33, 100}
	}
	if o.MaxFork == 0 {
		o.MaxFork = h.Shanghai
	}
	if o.MinFork == 0 {
		o.MinFork = h.Byzantium
	}
	sc := &scenario{}
	sc.Fork = o.MinFork + h.Fork(r.Intn(int(o.MaxFork-o.MinFork)+1))
	sc.NContract = o.Contracts
	if sc.NContract == 0 {
		sc.NContract = 2 + r.Intn(3)
	}
	locals := make([]int, sc.NContract)
	var mk func(parent *node, depth int, kind byte) *node
	mk = func(parent *node, depth int, kind byte) *node {
		n := &node{ID: len(sc.Nodes), Kind: kind, Depth: depth, Extra: o.Extra}
		sc.Nodes = append(sc.Nodes, n)
		if parent != nil {
			n.Static = parent.Static || kind == h.STATICCALL
		}
		isCreate := kind == h.CREATE || kind == h.CREATE2
		if isCreate {
			n.Contract = parent.Contract
			n.Salt = uint64(r.Intn(2))
		} else {
			n.Contract = r.Intn(sc.NContract)
			n.Local = locals[n.Contract]
			locals[n.Contract]++
			n.CDLen = h.Pick(r, o.CDLens)
			if n.Local == 0 && n.CDLen == 0 {
				n.EmptyCD = true
			}
			if n.Local != 0 && n.CDLen == 0 {
				n.CDLen = 1
			}
		}
		if (kind == h.CALL || kind == h.CALLCODE || isCreate) && r.Chance(o.ValuePct) {
			switch r.Intn(5) {
			case 0:
				n.Value = 1
			case 1, 2:
				n.Value = uint64(1 + r.Intn(300))
			case 3:
				n.Value = 7
			case 4:
				n.HugeVal = true
			}
		}
		gr := o.GasReqs
		if gr == nil {
			gr = []uint64{0, 1500000, 300000, 60000, 12000, 2500}
		}
		n.GasReq = gr[min(depth, len(gr)-1)]
		na := r.Intn(3)
		for i := 0; i < na; i++ {
			n.Pre = append(n.Pre, genAction(r, n))
		}
		na = r.Intn(3)
		for i := 0; i < na; i++ {
			n.Post = append(n.Post, genAction(r, n))
		}
		if depth < o.MaxDepth {
			w := r.Intn(o.MaxWidth + 1)
			if depth == 0 && w == 0 {
				w = 1
			}
			for i := 0; i < w && len(sc.Nodes) < o.MaxNodes; i++ {
				k := h.Pick(r, o.Kinds)
				n.Children = append(n.Children, mk(n, depth+1, k))
			}
		}
		// terminator
		if r.Chance(o.FailPct) {
			n.Term = h.Pick(r, []int{tRevert, tRevert, tInvalid, tOOG})
			if o.NoOOG && n.Term == tOOG {
				n.Term = tInvalid
			}
		} else {
			switch r.Intn(6) {
			case 0:
				n.Term = tStop
			case 1, 2, 3:
				n.Term = tReturn
			case 4:
				if !o.NoSelfdestruct && depth > 0 {
					n.Term = tSelfdestruct
				} else {
					n.Term = tReturn
				}
			default:
				n.Term = tStop
			}
		}
		if isCreate {
			switch n.Term {
			case tReturn, tStop:
				if r.Chance(70) {
					n.Term = tReturnCode
				}
			}
		}
		return n
	}
	sc.Root = mk(nil, 0, h.CALL)
	sc.Root.Value = 0
	sc.Root.HugeVal = false
	if r.Chance(o.ValuePct) {
		sc.Root.Value = uint64(r.Intn(50))
	}
	sc.build()
	cd := sc.calldataFor(sc.Root)
	sc.Tx = h.TxSpec{Entry: h.ECall, From: h.Sender, To: h.ContractAddr(sc.Root.Contract), Input: cd, Gas: 3_000_000, Value: new(big.Int).SetUint64(sc.Root.Value)}
	if o.RootGas != 0 {
		sc.Tx.Gas = o.RootGas
	}
	return sc
}

func genAction(r *h.RNG, n *node) action {
	k := r.Intn(10)
	if n.Static && r.Chance(85) {
		return action{Kind: 2, Slot: uint64(r.Intn(8))}
	}
	switch {
	case k < 5:
		return action{Kind: 0, Slot: uint64(n.ID*4 + r.Intn(2)), Val: uint64(1 + r.Intn(250))}
	case k < 7:
		return action{Kind: 1, Val: uint64(n.ID)}
	case k < 9:
		return action{Kind: 2, Slot: uint64(r.Intn(8))}
	default:
		return action{Kind: 0, Slot: uint64(r.Intn(3)), Val: uint64(r.Intn(3))} // shared slots, may write 0
	}
}

func (sc *scenario) calldataFor(n *node) []byte {
	if n.EmptyCD {
		return nil
	}
	l := n.CDLen
	if l < 1 {
		l = 1
	}
	cd := make([]byte, l)
	cd[0] = byte(n.Local)
	for i := 1; i < l; i++ {
		cd[i] = byte(0xa0 + (n.ID+i)%0x50)
	}
	return cd
}

func emitActions(a *h.Asm, as []action, n *node) {
	for _, ac := range as {
		switch ac.Kind {
		case 0:
			a.PushU(ac.Val).PushU(ac.Slot).Op(h.SSTORE)
		case 1:
			if ac.Val%3 == 1 {
				// data range starting inside the last word of memory and ending beyond it
				a.PushU(ac.Val+0x1000).Push(new(uint256.Int).Lsh(h.U(0xa1b2c3d4e5f6+uint64(n.ID)), 8)).Op(h.MSIZE, h.MSTORE)
				a.PushU(20+ac.Val%60).PushU(9).Op(h.MSIZE, h.SUB, h.LOG0+1)
				continue
			}
			a.PushU(ac.Val + 0x1000).PushU(uint64(n.ID)).PushU(0).Op(h.MSTORE).PushU(32).PushU(0).Op(h.LOG0 + 1)
		case 2:
			a.PushU(ac.Slot).Op(h.SLOAD, h.POP)
		}
	}
}

const (
	memCD   = 0x100 // calldata staging
	memRet  = 0x80  // return area (deliberately below/overlapping nothing important)
	memInit = 0x400 // init code staging
)

// emitBody emits the code of node n into a. blobs collects init-code blobs to
// be appended to the enclosing code unit; they are referenced via Mark labels.
func (sc *scenario) emitBody(a *h.Asm, n *node, blobs *[]blob) {
	if n.Extra != nil {
		n.Extra(a, n, 0)
	}
	emitActions(a, n.Pre, n)
	for _, c := range n.Children {
		switch c.Kind {
		case h.CREATE, h.CREATE2:
			sub := h.NewAsm()
			var subBlobs []blob
			sc.emitBody(sub, c, &subBlobs)
			appendBlobs(sub, subBlobs)
			code := sub.Bytes()
			name := fmt.Sprintf("blob%d", c.ID)
			*blobs = append(*blobs, blob{name, code})
			// CODECOPY(memInit, blobOffset, len)
			a.PushU(uint64(len(code))).PushLabel(name).PushU(memInit).Op(h.CODECOPY)
			if c.Kind == h.CREATE2 {
				a.PushU(c.Salt)
			}
			a.PushU(uint64(len(code))).PushU(memInit)
			sc.pushValue(a, c)
			a.Op(c.Kind)
			// result address -> flag slot
			a.PushU(uint64(1000 + c.ID)).Op(h.SSTORE)
		default:
			cd := sc.calldataFor(c)
			if len(cd) > 0 {
				a.MstoreBytes(memCD, cd)
			}
			a.PushU(32).PushU(memRet).PushU(uint64(len(cd))).PushU(memCD)
			if c.Kind == h.CALL || c.Kind == h.CALLCODE {
				sc.pushValue(a, c)
			}
			a.PushAddr(h.ContractAddr(c.Contract)).PushU(c.GasReq).Op(c.Kind)
			// success flag -> memory word and (when possible) a flag slot
			a.Op(h.DUP1).PushU(uint64(0x200 + 32*(c.ID%8))).Op(h.MSTORE)
			if n.Static {
				a.Op(h.POP)
			} else {
				a.PushU(uint64(1000 + c.ID)).Op(h.SSTORE)
			}
		}
	}
	emitActions(a, n.Post, n)
	if n.Extra != nil {
		n.Extra(a, n, 1)
	}
	switch n.Term {
	case tStop:
		a.Op(h.STOP)
	case tReturn:
		a.PushU(uint64(0xbeef00 + n.ID)).PushU(0).Op(h.MSTORE).PushU(32).PushU(0).Op(h.RETURN)
	case tRevert:
		a.PushU(uint64(0xdead00 + n.ID)).PushU(0).Op(h.MSTORE).PushU(32).PushU(0).Op(h.REVERT)
	case tInvalid:
		a.Op(h.INVALID)
	case tOOG:
		if n.GasReq != 0 && n.GasReq <= 60000 && n.ID%2 == 0 {
			// genuine gas exhaustion by looping (bounded: the frame has little gas)
			l := a.NewLabel() + fmt.Sprint(n.ID)
			a.Label(l).Jump(l)
		} else {
			// out of gas through memory expansion (one step instead of 10^5 loop iterations)
			a.PushU(0x40000000).Op(h.MLOAD)
		}
	case tSelfdestruct:
		a.PushAddr(h.EOARich).Op(h.SELFDESTRUCT)
	case tReturnCode:
		// return a 2-byte runtime: PUSH1 <id>; (truncated) -> harmless
		a.Push(new(uint256.Int).Lsh(uint256.NewInt(0x6000+uint64(n.ID&0xff)), 240)).PushU(0).Op(h.MSTORE).PushU(2).PushU(0).Op(h.RETURN)
	}
}

type blob struct {
	name string
	code []byte
}

func appendBlobs(a *h.Asm, bs []blob) {
	for _, b := range bs {
		a.Mark(b.name)
		a.Raw(b.code)
	}
}

func (sc *scenario) pushValue(a *h.Asm, c *node) {
	if c.HugeVal {
		a.Push(new(uint256.Int).Lsh(uint256.NewInt(1), 120))
	} else {
		a.PushU(c.Value)
	}
}

// build assembles the contracts and the world.
func (sc *scenario) build() {
	per := make([][]*node, sc.NContract)
	for _, n := range sc.Nodes {
		if n.Kind == h.CREATE || n.Kind == h.CREATE2 {
			continue
		}
		per[n.Contract] = append(per[n.Contract], n)
	}
	sc.Codes = make([][]byte, sc.NContract)
	for ci := range per {
		a := h.NewAsm()
		var blobs []blob
		nodes := per[ci]
		if len(nodes) == 0 {
			a.Op(h.STOP)
			sc.Codes[ci] = a.Bytes()
			continue
		}
		// dispatcher: id = calldata[0] (0 when calldata empty)
		a.PushU(0).Op(h.CALLDATALOAD).Push(new(uint256.Int).Lsh(uint256.NewInt(1), 248)).Op(h.SWAP1, h.DIV)
		for _, n := range nodes {
			if n.Local == 0 {
				continue
			}
			a.Op(h.DUP1).PushU(uint64(n.Local)).Op(h.EQ).JumpI(fmt.Sprintf("node%d", n.ID))
		}
		a.Op(h.POP)
		for _, n := range nodes {
			if n.Local == 0 {
				sc.emitBody(a, n, &blobs)
			}
		}
		a.Op(h.STOP)
		for _, n := range nodes {
			if n.Local == 0 {
				continue
			}
			a.Label(fmt.Sprintf("node%d", n.ID)).Op(h.POP)
			sc.emitBody(a, n, &blobs)
			a.Op(h.STOP)
		}
		appendBlobs(a, blobs)
		sc.Codes[ci] = a.Bytes()
	}
	sc.World = h.BaseWorld(sc.Codes)
}

func (sc *scenario) desc() string {
	var walk func(n *node) string
	walk = func(n *node) string {
		s := fmt.Sprintf("%d:%#x@c%d", n.ID, n.Kind, n.Contract)
		if n.Value != 0 || n.HugeVal {
			s += fmt.Sprintf("$%d", n.Value)
			if n.HugeVal {
				s += "!"
			}
		}
		s += "/" + termNames[n.Term]
		if len(n.Children) > 0 {
			s += "["
			for i, c := range n.Children {
				if i > 0 {
					s += " "
				}
				s += walk(c)
			}
			s += "]"
		}
		return s
	}
	if sc.Root == nil {
		return fmt.Sprintf("fork=%s hand-written program (%d contracts) entry=%s gas=%d", sc.Fork, sc.NContract, sc.Tx.Entry, sc.Tx.Gas)
	}
	return fmt.Sprintf("fork=%s tree=%s", sc.Fork, walk(sc.Root))
}

// Injected error kinds for join-point failures.
var (
	errGeneric = errors.New("injected provider failure")
	errOOGText = errors.New("out of gas") // same text as the EVM's error, different value
)

func injectedErr(kind int) error {
	switch kind {
	case 0:
		return errGeneric
	case 1:
		return errOOGText
	case 2:
		return avm.ErrExecutionReverted
	case 3:
		return run.ErrExecutionReverted
	}
	return errGeneric
}

var injectedErrNames = []string{"generic", "oog-text", "vm-revert", "aspect-revert"}

// bindPlan binds real WASM Aspects to some contracts.
func bindPlan(r *h.RNG, sc *scenario, pct int, loopsChoices []uint32, trapPct int) *h.AspectPlan {
	p := &h.AspectPlan{Pre: map[common.Address][]h.Binding{}, Post: map[common.Address][]h.Binding{}, FailAt: map[int]error{}}
	for ci := 0; ci < sc.NContract; ci++ {
		addr := h.ContractAddr(ci)
		for _, m := range []map[common.Address][]h.Binding{p.Pre, p.Post} {
			if !r.Chance(pct) {
				continue
			}
			k := 1
			if r.Chance(25) {
				k = 2 + r.Intn(2)
			}
			for j := 0; j < k; j++ {
				var id common.Address
				id[0] = 0xa5
				id[18] = byte(ci)
				id[19] = byte(len(m[addr]) + 1)
				m[addr] = append(m[addr], h.Binding{AspectID: id, Loops: h.Pick(r, loopsChoices), Trap: r.Chance(trapPct)})
			}
		}
	}
	return p
}

func runScenario(sc *scenario, plan *h.AspectPlan, jp bool, recSteps bool) (*h.ForkSession, h.InvokeResult) {
	fs := h.NewForkSession(sc.World, h.EnvSpec{Fork: sc.Fork}, h.ForkOpts{Debug: true, RecSteps: recSteps, JoinPoints: jp, Plan: plan})
	res := fs.Invoke(sc.Tx)
	return fs, res
}

var one256 = uint256.NewInt(1)
