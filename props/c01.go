package props

import (
	"fmt"

	h "verif/harness"

	"github.com/holiman/uint256"
)

// C01 — execution equals go-ethereum v1.12.0 (differential monitor).

func init() {
	Register(&Prop{
		ID:    "C01",
		Level: "exploration",
		Rule: "cases = generated worlds of 1-4 mutually calling gadget programs x 6 entry points x forks Frontier..Shanghai x extra-EIP subsets x calldata/value/gas classes (plus, thorough, every binary opcode x boundary operand pairs x every fork); " +
			"kinds runtime / hostctx: vm/runtime's Execute, Call and Create (explicit and default configurations) and core/evm.go's NewEVMBlockContext, NewEVMTxContext, GetHashFn (answers and number of header reads), CanTransfer and Transfer against their upstream originals; " +
			"each case runs go-ethereum v1.12.0 once and the fork in 4 configurations (debug tracer off/on x join points off/on with nothing bound) and compares return data, error class, leftover gas, logs, refund, self-destruct set and state root; " +
			"distinct_nontrivial = distinct (opcode, depth, error-class) step-sequence shapes of in-domain executions that executed at least 3 instructions",
		Assumptions: []string{
			"go-ethereum v1.12.0 core/vm + core/state from the module cache is the trusted reference",
			"host initialised as an embedding chain does; cumulative fork configs; call values < 2^256",
			"cases that executed a non-standard opcode (0xe0-0xe7) or touched 0x64-0x66 are out of the property's domain and skipped (counted)",
			"sampled, not exhaustive",
		},
		Cases: func(seed uint64, tier string) []Case {
			n := 3000
			if !quick(tier) {
				n = 60000
			}
			cs := make([]Case, 0, n+400)
			for i := 0; i < n; i++ {
				cs = append(cs, Case{Kind: "gen", Seed: h.Mix(seed, 0xC01, uint64(i))})
			}
			// structured call trees (nested DELEGATECALL/CALLCODE chains, creates, values; every frame stores CALLER/CALLVALUE/ADDRESS/ORIGIN)
			nt := 200
			if !quick(tier) {
				nt = 4000
			}
			for i := 0; i < nt; i++ {
				cs = append(cs, Case{Kind: "tree", Seed: h.Mix(seed, 0xC01A, uint64(i))})
			}
			// the convenience entry points of vm/runtime and the host-side constructors of core/evm.go
			nr := 400
			if !quick(tier) {
				nr = 5000
			}
			for i := 0; i < nr; i++ {
				cs = append(cs, Case{Kind: "runtime", Seed: h.Mix(seed, 0xC01B, uint64(i))})
			}
			for i := 0; i < nr/40; i++ {
				cs = append(cs, Case{Kind: "hostctx", Seed: h.Mix(seed, 0xC01C, uint64(i))})
			}
			for f := h.Frontier; f <= h.Shanghai; f++ {
				cs = append(cs, Case{Kind: "directed", P: []int64{int64(f)}, Seed: h.Mix(seed, 0xC01D, uint64(f))})
			}
			// every DUPn / SWAPn / LOGn / PUSHn at the stack heights around its declared minimum and maximum
			for _, f := range []h.Fork{h.Frontier, h.Shanghai} {
				cs = append(cs, Case{Kind: "stackop", P: []int64{int64(f)}})
			}
			if !quick(tier) {
				for _, op := range binOpsAll {
					for f := h.Frontier; f <= h.Shanghai; f++ {
						cs = append(cs, Case{Kind: "binop", P: []int64{int64(op), int64(f)}})
					}
				}
				for _, op := range []byte{h.ADDMOD, h.MULMOD} {
					for _, f := range []h.Fork{h.Frontier, h.Constantinople, h.Shanghai} {
						for part := 0; part < 8; part++ {
							cs = append(cs, Case{Kind: "triop", P: []int64{int64(op), int64(f), int64(part)}})
						}
					}
				}
			} else {
				// a rotating slice of the sweep in quick
				for i, op := range binOpsAll {
					f := h.Fork((int(seed) + i) % int(h.Shanghai+1))
					cs = append(cs, Case{Kind: "binop", P: []int64{int64(op), int64(f), 1}})
				}
			}
			return cs
		},
		Run: runC01,
		Floors: func(tier string) map[string]int64 {
			return map[string]int64{"in_domain": 1500, "fork_runs": 6000}
		},
	})
}

var binOpsAll = []byte{h.ADD, h.MUL, h.SUB, h.DIV, h.SDIV, h.MOD, h.SMOD, h.EXP, h.SIGNEXTEND, h.LT, h.GT, h.SLT, h.SGT, h.EQ, h.AND, h.OR, h.XOR, h.BYTE, h.SHL, h.SHR, h.SAR}

type forkCfg struct {
	debug, jp bool
}

var c01Cfgs = []forkCfg{{true, false}, {false, false}, {true, true}, {false, true}}

func (c forkCfg) String() string { return fmt.Sprintf("dbg=%v,jp=%v", c.debug, c.jp) }

// dualCompare runs reference + fork configurations and reports outcome differences.
func dualCompare(res *CaseResult, dc DualCase, cfgs []forkCfg) (inDomain bool) {
	rs := h.NewRefSession(dc.World, dc.Env, h.RefOpts{Debug: true, RecSteps: true})
	rres := rs.Invoke(dc.Tx)
	if out, why := executedOutOfDomain(rs.L, dc.Tx, dc.Env.ExtraEips); out {
		res.Count("out_of_domain", 1)
		res.Set("out_of_domain_reasons", why)
		return false
	}
	var addrs = h.TouchedAddrs(dc.World, rs.L)
	rout := h.CollectOutcome(rs.DB, rres, rs.Rules.IsEIP158, addrs)
	for ci, cfg := range cfgs {
		fs := h.NewForkSession(dc.World, dc.Env, h.ForkOpts{Debug: cfg.debug, RecSteps: cfg.debug, JoinPoints: cfg.jp})
		fres := fs.Invoke(dc.Tx)
		res.Count("fork_runs", 1)
		if cfg.debug {
			if out, why := executedOutOfDomain(fs.L, dc.Tx, dc.Env.ExtraEips); out {
				res.Count("out_of_domain", 1)
				res.Set("out_of_domain_reasons", "fork:"+why)
				return false
			}
		}
		fout := h.CollectOutcome(fs.DB, fres, fs.Rules.IsEIP158, addrs)
		if d := h.DiffOutcome(fout, rout); len(d) > 0 {
			fout.Dump = h.DumpAccounts(fs.DB, addrs)
			rout.Dump = h.DumpAccounts(rs.DB, addrs)
			d = h.DiffOutcome(fout, rout)
			what := "state"
			switch {
			case fout.Panic != rout.Panic:
				what = "panic"
			case fout.Err != rout.Err:
				what = "error-class"
			case string(fout.Ret) != string(rout.Ret):
				what = "return-data"
			case fout.Gas != rout.Gas:
				what = "leftover-gas"
			case len(fout.Logs) != len(rout.Logs):
				what = "logs"
			case fout.Refund != rout.Refund:
				what = "refund"
			}
			det := append([]string{dc.Desc, "config " + cfg.String(), "fork vs reference:"}, d...)
			if fres.Panic != "" {
				det = append(det, clip(fres.PanicStk, 1500))
			}
			res.Fail(Key("diff", what, dc.Tx.Entry.String()), "fork result differs from go-ethereum v1.12.0", det...)
		}
		if ci == 0 {
			opsCovered(res, fs.L)
			steps := 0
			for i := range fs.L.Events {
				if fs.L.Events[i].K == h.KStep {
					steps++
				}
			}
			res.Count("steps", int64(steps))
			if steps >= 3 {
				res.Shape(shapeOf(fs.L))
			}
			res.Set("forks", dc.Env.Fork.String())
			res.Set("entries", dc.Tx.Entry.String())
			res.Set("result_classes", clip(fres.ErrClass, 40))
		}
	}
	res.Count("in_domain", 1)
	return true
}

func runC01(c Case, tier string) (res CaseResult) {
	switch c.Kind {
	case "directed":
		// hand-written families around creation and destruction (see c02.go: the same programs, here under the outcome oracle)
		f := h.Fork(c.P[0])
		for _, dc := range append(selfdestructDuals(f), createEdgeDuals(f, h.NewRNG(c.Seed))...) {
			if dualCompare(&res, dc, c01Cfgs[:2]) {
				res.Count("directed_cases", 1)
			}
		}
	case "runtime":
		runC01Runtime(c, &res)
	case "hostctx":
		runC01HostCtx(c, &res)
	case "gen":
		dc := genDual(c.Seed, h.Shanghai, nil)
		if c.Seed%97 == 0 {
			res.Sample = map[string]interface{}{"case": c, "desc": dc.Desc, "code0": fmt.Sprintf("%x", dc.World.Get(h.ContractAddr(0)).Code)}
		}
		dualCompare(&res, dc, c01Cfgs)
	case "binop":
		op, f := byte(c.P[0]), h.Fork(c.P[1])
		bs := h.BoundaryU256()
		step := 1
		if len(c.P) > 2 {
			step = 5
		}
		n := 0
		for i := 0; i < len(bs); i += step {
			for j := 0; j < len(bs); j += step {
				a := h.NewAsm()
				a.Push(bs[j]).Push(bs[i]).Op(op).PushU(0).Op(h.MSTORE).PushU(32).PushU(0).Op(h.RETURN)
				dc := DualCase{World: h.BaseWorld([][]byte{a.Bytes()}), Env: h.EnvSpec{Fork: f},
					Tx:   h.TxSpec{Entry: h.ECall, From: h.Sender, To: h.ContractAddr(0), Gas: 100000},
					Desc: fmt.Sprintf("binop %#x fork=%s a=%s b=%s", op, f, bs[i].Hex(), bs[j].Hex())}
				dualCompare(&res, dc, c01Cfgs[:2])
				n++
			}
		}
		res.Evals = int64(n)
		_ = uint256.NewInt
	case "tree":
		dualCompare(&res, genDualTree(c.Seed), c01Cfgs)
		res.Count("tree_cases", 1)
	case "stackop":
		f := h.Fork(c.P[0])
		n := 0
		type sop struct {
			op  byte
			min int
		}
		var sops []sop
		for i := 0; i < 16; i++ {
			sops = append(sops, sop{byte(0x80 + i), i + 1}, sop{byte(0x90 + i), i + 2})
		}
		for i := 0; i < 5; i++ {
			sops = append(sops, sop{byte(0xa0 + i), i + 2})
		}
		for _, so := range sops {
			for _, hgt := range []int{0, so.min - 2, so.min - 1, so.min, so.min + 1, 1022, 1023, 1024} {
				if hgt < 0 {
					continue
				}
				a := h.NewAsm()
				for i := 0; i < hgt; i++ {
					a.Op(h.PC)
				}
				a.Op(so.op).PushU(0).Op(h.MSTORE).PushU(32).PushU(0).Op(h.RETURN)
				dc := DualCase{World: h.BaseWorld([][]byte{a.Bytes()}), Env: h.EnvSpec{Fork: f},
					Tx:   h.TxSpec{Entry: h.ECall, From: h.Sender, To: h.ContractAddr(0), Gas: 200000},
					Desc: fmt.Sprintf("opcode %#x with %d words on the stack, fork=%s", so.op, hgt, f)}
				dualCompare(&res, dc, c01Cfgs[:2])
				n++
			}
		}
		res.Evals = int64(n)
	case "triop":
		op, f, part := byte(c.P[0]), h.Fork(c.P[1]), int(c.P[2])
		bs := h.BoundaryU256()
		n := 0
		for i := part; i < len(bs); i += 8 {
			for j := 0; j < len(bs); j += 2 {
				for k := 0; k < len(bs); k += 2 {
					a := h.NewAsm()
					a.Push(bs[k]).Push(bs[j]).Push(bs[i]).Op(op).PushU(0).Op(h.MSTORE).PushU(32).PushU(0).Op(h.RETURN)
					dc := DualCase{World: h.BaseWorld([][]byte{a.Bytes()}), Env: h.EnvSpec{Fork: f},
						Tx:   h.TxSpec{Entry: h.ECall, From: h.Sender, To: h.ContractAddr(0), Gas: 100000},
						Desc: fmt.Sprintf("triop %#x fork=%s a=%s b=%s n=%s", op, f, bs[i].Hex(), bs[j].Hex(), bs[k].Hex())}
					dualCompare(&res, dc, c01Cfgs[:1])
					n++
				}
			}
		}
		res.Evals = int64(n)
	}
	return
}
